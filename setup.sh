#!/bin/sh
# Build the simulation harness from files on disk only (offline).
set -e
export GOFLAGS=-mod=mod GOPROXY=off GOSUMDB=off GOTOOLCHAIN=local
cd /verif/sim
cp /repo/go.sum . 2>/dev/null || true
mkdir -p bin
go1.26.8 test -c -tags verif -o bin/harness.test ./harness/
echo setup ok
