package fakepg

import (
	"context"
	"fmt"
	"sort"
	"testing"
	"testing/synctest"
	"time"

	"github.com/indexsupply/shovel/shovel"
)

// The repository's own PruneTask against the fake server: the newest n
// position rows of every (source, integration) pair survive.
func TestPruneTask(t *testing.T) {
	synctest.Test(t, func(t *testing.T) {
		s := NewServer()
		if err := s.InstallSchema(shovel.Schema); err != nil {
			t.Fatal(err)
		}
		ctx := context.Background()
		p := NewPool(t, s, "a")
		ins := func(src, ig string, num uint64) {
			_, err := p.Exec(ctx, `insert into shovel.task_updates (chain_id, src_name, ig_name, num, hash, src_num, src_hash, stop, nblocks, nrows, latency) values ($1,$2,$3,$4,$5,$6,$7,$8,$9,$10,$11)`,
				uint64(1), src, ig, num, []byte{1, 2}, num, []byte{3}, uint64(0), uint64(1), int64(5), time.Second)
			if err != nil {
				t.Fatal(err)
			}
		}
		for n := uint64(1); n <= 5; n++ {
			ins("a", "x", n)
		}
		for n := uint64(1001); n <= 1007; n++ {
			ins("b", "x", n)
		}
		ins("a", "y", 50)
		if err := shovel.PruneTask(ctx, p, 3); err != nil {
			t.Fatal(err)
		}
		rows, err := p.Query(ctx, `select src_name, ig_name, num from shovel.task_updates`)
		if err != nil {
			t.Fatal(err)
		}
		var got []string
		for rows.Next() {
			var a, b string
			var n uint64
			if err := rows.Scan(&a, &b, &n); err != nil {
				t.Fatal(err)
			}
			got = append(got, fmt.Sprintf("%s/%s/%d", a, b, n))
		}
		sort.Strings(got)
		want := "[a/x/3 a/x/4 a/x/5 a/y/50 b/x/1005 b/x/1006 b/x/1007]"
		if fmt.Sprint(got) != want {
			t.Fatalf("got %v want %s", got, want)
		}
		if s.Unsupported != nil {
			t.Fatal(s.Unsupported)
		}
		p.Close()
		time.Sleep(time.Second)
		synctest.Wait()
	})
}
