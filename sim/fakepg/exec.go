package fakepg

import (
	"fmt"
	"math/big"
	"sort"
	"strings"
	"sync"
	"time"
)

// PGError is answered as an ErrorResponse.
type PGError struct {
	Code string
	Msg  string
}

func (e *PGError) Error() string { return e.Code + ": " + e.Msg }

func pgErr(code, f string, a ...any) *PGError { return &PGError{code, fmt.Sprintf(f, a...)} }

// DB is the committed state plus bookkeeping. All access goes through mu; the
// simulation releases one seam event at a time, so there is no contention, but
// pgx's own goroutines may close connections concurrently.
type DB struct {
	mu      sync.Mutex
	tables  map[string]*Table
	schemas map[string]bool
	nextRow uint64
	seq     int
	snap    *Snapshot
	Notifs  []Notif

	// OnCommit is called (with mu held) after every commit that changed state.
	OnCommit func(ci *CommitInfo)
	Now      func() time.Time
}

type Notif struct {
	Channel, Payload string
	Owner            string
}

func NewDB() *DB {
	db := &DB{tables: map[string]*Table{}, schemas: map[string]bool{"public": true}, Now: time.Now}
	db.rebuildSnapshot()
	return db
}

func (db *DB) rebuildSnapshot() {
	s := &Snapshot{Seq: db.seq, Tables: map[string]*TableSnap{}}
	for k, t := range db.tables {
		s.Tables[k] = &TableSnap{Cols: t.Cols, Rows: t.Rows}
	}
	db.snap = s
}

// Snapshot returns the current committed state (immutable).
func (db *DB) Snapshot() *Snapshot {
	db.mu.Lock()
	defer db.mu.Unlock()
	return db.snap
}

func (db *DB) Seq() int {
	db.mu.Lock()
	defer db.mu.Unlock()
	return db.seq
}

// Tx is the private overlay of one open transaction.
type Tx struct {
	db       *DB
	owner    string
	connID   int
	inserted map[string][]*Row
	deleted  map[string]map[uint64]*Row
	ddl      bool
	notifs   []Notif
	failed   bool
	saves    []savepoint
}

// savepoint: the transaction's private overlay as it was when the savepoint
// was set.
type savepoint struct {
	name     string
	inserted map[string][]*Row
	deleted  map[string]map[uint64]*Row
	nnotifs  int
}

func (tx *Tx) copyOverlay() (map[string][]*Row, map[string]map[uint64]*Row) {
	ins := map[string][]*Row{}
	for k, v := range tx.inserted {
		ins[k] = append([]*Row(nil), v...)
	}
	del := map[string]map[uint64]*Row{}
	for k, m := range tx.deleted {
		c := map[uint64]*Row{}
		for id, r := range m {
			c[id] = r
		}
		del[k] = c
	}
	return ins, del
}

func (tx *Tx) savepoint(name string) {
	ins, del := tx.copyOverlay()
	tx.saves = append(tx.saves, savepoint{name, ins, del, len(tx.notifs)})
}

// rollbackTo restores the overlay of the newest savepoint of that name (the
// savepoint stays defined, later ones are dropped). ok=false: no such savepoint.
func (tx *Tx) rollbackTo(name string) bool {
	for i := len(tx.saves) - 1; i >= 0; i-- {
		if tx.saves[i].name == name {
			sp := tx.saves[i]
			tx.saves = tx.saves[:i+1]
			tx.inserted, tx.deleted = sp.inserted, sp.deleted
			// keep a private copy in the savepoint for a second rollback to it
			ins, del := tx.copyOverlay()
			tx.saves[i].inserted, tx.saves[i].deleted = ins, del
			if sp.nnotifs <= len(tx.notifs) {
				tx.notifs = tx.notifs[:sp.nnotifs]
			}
			return true
		}
	}
	return false
}

func (tx *Tx) release(name string) bool {
	for i := len(tx.saves) - 1; i >= 0; i-- {
		if tx.saves[i].name == name {
			tx.saves = tx.saves[:i]
			return true
		}
	}
	return false
}

func (db *DB) newTx(owner string, connID int) *Tx {
	return &Tx{db: db, owner: owner, connID: connID, inserted: map[string][]*Row{}, deleted: map[string]map[uint64]*Row{}}
}

// visible rows of a table for this tx: committed - deleted + inserted.
func (tx *Tx) rows(t *Table) []*Row {
	full := t.FullName()
	del := tx.deleted[full]
	ins := tx.inserted[full]
	if len(del) == 0 && len(ins) == 0 {
		return t.Rows
	}
	out := make([]*Row, 0, len(t.Rows)+len(ins))
	for _, r := range t.Rows {
		if _, gone := del[r.ID]; !gone {
			out = append(out, r)
		}
	}
	for _, r := range ins {
		if _, gone := del[r.ID]; !gone {
			out = append(out, r)
		}
	}
	return out
}

func (db *DB) table(tn TableName) (*Table, error) {
	t, ok := db.tables[tn.Schema+"."+tn.Name]
	if !ok {
		return nil, pgErr("42P01", "relation %q does not exist", tn.Name)
	}
	return t, nil
}

func uniqueKey(vals []Value, cols []int) (string, bool) {
	var sb strings.Builder
	for _, c := range cols {
		var v Value
		if c < len(vals) {
			v = vals[c]
		}
		if v == nil {
			return "", false // NULLs never collide
		}
		sb.WriteString(FormatValue(v))
		sb.WriteByte(0)
	}
	return sb.String(), true
}

func (tx *Tx) checkUnique(t *Table, vals []Value, visible []*Row) error {
	for _, ix := range t.Indexes {
		if !ix.Unique {
			continue
		}
		k, ok := uniqueKey(vals, ix.Cols)
		if !ok {
			continue
		}
		for _, r := range visible {
			if k2, ok2 := uniqueKey(r.Vals, ix.Cols); ok2 && k2 == k {
				return pgErr("23505", "duplicate key value violates unique constraint %q", ix.Name)
			}
		}
	}
	return nil
}

func (tx *Tx) insertRow(t *Table, vals []Value) error {
	for i, c := range t.Cols {
		if c.NotNull && vals[i] == nil {
			return pgErr("23502", "null value in column %q violates not-null constraint", c.Name)
		}
	}
	if err := tx.checkUnique(t, vals, tx.rows(t)); err != nil {
		return err
	}
	tx.db.nextRow++
	r := &Row{ID: tx.db.nextRow, Vals: vals}
	full := t.FullName()
	tx.inserted[full] = append(tx.inserted[full], r)
	return nil
}

func (tx *Tx) deleteRow(t *Table, r *Row) {
	full := t.FullName()
	if tx.deleted[full] == nil {
		tx.deleted[full] = map[uint64]*Row{}
	}
	tx.deleted[full][r.ID] = r
}

// commit applies the overlay. Unique constraints are re-checked against the
// now-current committed state (a concurrent transaction may have committed a
// clashing row): real PostgreSQL would have blocked the insert and failed it
// once the other transaction committed; the outcome (this one fails) is the same.
func (tx *Tx) commit() error {
	db := tx.db
	// re-check
	for full, ins := range tx.inserted {
		t := db.tables[full]
		if t == nil {
			return pgErr("42P01", "relation %q vanished", full)
		}
		del := tx.deleted[full]
		var base []*Row
		for _, r := range t.Rows {
			if _, gone := del[r.ID]; !gone {
				base = append(base, r)
			}
		}
		for i, r := range ins {
			if _, gone := del[r.ID]; gone {
				continue
			}
			vis := base
			for _, r2 := range ins[:i] {
				if _, gone := del[r2.ID]; !gone {
					vis = append(vis[:len(vis):len(vis)], r2)
				}
			}
			if err := tx.checkUnique(t, r.Vals, vis); err != nil {
				return err
			}
		}
	}
	ci := &CommitInfo{Owner: tx.owner, ConnID: tx.connID, Inserted: map[string][]*Row{}, Deleted: map[string][]*Row{}, DDL: tx.ddl}
	changed := tx.ddl
	db.seq++
	for full, del := range tx.deleted {
		t := db.tables[full]
		if t == nil || len(del) == 0 {
			continue
		}
		nr := make([]*Row, 0, len(t.Rows))
		for _, r := range t.Rows {
			if _, gone := del[r.ID]; gone {
				ci.Deleted[full] = append(ci.Deleted[full], r)
				changed = true
				continue
			}
			nr = append(nr, r)
		}
		t.Rows = nr
	}
	for full, ins := range tx.inserted {
		t := db.tables[full]
		del := tx.deleted[full]
		nr := append([]*Row(nil), t.Rows...)
		for _, r := range ins {
			if _, gone := del[r.ID]; gone {
				continue
			}
			r.Born = db.seq
			nr = append(nr, r)
			ci.Inserted[full] = append(ci.Inserted[full], r)
			changed = true
		}
		t.Rows = nr
	}
	for _, n := range tx.notifs {
		db.Notifs = append(db.Notifs, n)
	}
	if !changed {
		db.seq--
		return nil
	}
	db.rebuildSnapshot()
	ci.Seq = db.seq
	ci.Snap = db.snap
	if db.OnCommit != nil {
		db.OnCommit(ci)
	}
	return nil
}

// ---- prepared statement analysis ----

type ResultCol struct {
	Name string
	OID  uint32
}

type Prepared struct {
	SQL       string
	Stmt      Stmt
	ParamOIDs []uint32
	Cols      []ResultCol // nil: no rows returned
}

type scopeCol struct {
	table string
	name  string
	oid   uint32
}

type scope struct {
	cols []scopeCol
}

func (s *scope) find(tbl, name string) (int, error) {
	idx := -1
	for i, c := range s.cols {
		if c.name == name && (tbl == "" || tbl == c.table) {
			if idx >= 0 {
				return -1, pgErr("42702", "column reference %q is ambiguous", name)
			}
			idx = i
		}
	}
	if idx < 0 {
		return -1, pgErr("42703", "column %q does not exist", name)
	}
	return idx, nil
}

type analyzer struct {
	db     *DB
	params map[int]uint32
	ctes   map[string][]scopeCol
}

func (a *analyzer) setParam(n int, oid uint32) {
	if cur, ok := a.params[n]; ok && cur != OIDUnknown {
		return
	}
	a.params[n] = oid
}

// exprType infers the result OID and assigns parameter types from context.
func (a *analyzer) exprType(e Expr, sc *scope, hint uint32) (uint32, error) {
	switch x := e.(type) {
	case ELit:
		switch x.V.(type) {
		case string:
			if hint != 0 && hint != OIDUnknown {
				return hint, nil
			}
			return OIDText, nil
		case int64:
			return OIDInt4, nil
		case bool:
			return OIDBool, nil
		}
		return OIDText, nil
	case EParam:
		if hint == 0 {
			hint = OIDUnknown
		}
		a.setParam(x.N, hint)
		o := a.params[x.N]
		if o == OIDUnknown {
			return OIDText, nil
		}
		return o, nil
	case ECol:
		if sc == nil {
			return 0, pgErr("42703", "column %q does not exist", x.Name)
		}
		i, err := sc.find(x.Table, x.Name)
		if err != nil {
			return 0, err
		}
		return sc.cols[i].oid, nil
	case EBin:
		if x.Op == "and" || x.Op == "or" {
			if _, err := a.exprType(x.L, sc, OIDBool); err != nil {
				return 0, err
			}
			if _, err := a.exprType(x.R, sc, OIDBool); err != nil {
				return 0, err
			}
			return OIDBool, nil
		}
		_, lp := x.L.(EParam)
		if lp {
			ro, err := a.exprType(x.R, sc, 0)
			if err != nil {
				return 0, err
			}
			if _, err := a.exprType(x.L, sc, ro); err != nil {
				return 0, err
			}
		} else {
			lo, err := a.exprType(x.L, sc, 0)
			if err != nil {
				return 0, err
			}
			if _, err := a.exprType(x.R, sc, lo); err != nil {
				return 0, err
			}
		}
		return OIDBool, nil
	case ENot:
		if _, err := a.exprType(x.E, sc, OIDBool); err != nil {
			return 0, err
		}
		return OIDBool, nil
	case EIsNull:
		if _, err := a.exprType(x.E, sc, 0); err != nil {
			return 0, err
		}
		return OIDBool, nil
	case EAny:
		lo, err := a.exprType(x.L, sc, 0)
		if err != nil {
			return 0, err
		}
		if _, err := a.exprType(x.Arr, sc, arrayOID(lo)); err != nil {
			return 0, err
		}
		return OIDBool, nil
	case ECast:
		oid, ok := typeOID(x.Type)
		if !ok {
			return 0, &ErrUnsupported{"cast to " + x.Type}
		}
		if _, err := a.exprType(x.E, sc, oid); err != nil {
			return 0, err
		}
		return oid, nil
	case EFunc:
		switch x.Name {
		case "count":
			for _, arg := range x.Args {
				if _, err := a.exprType(arg, sc, 0); err != nil {
					return 0, err
				}
			}
			return OIDInt8, nil
		case "pg_notify":
			if len(x.Args) != 2 {
				return 0, pgErr("42883", "function pg_notify wrong arity")
			}
			for _, arg := range x.Args {
				if _, err := a.exprType(arg, sc, OIDText); err != nil {
					return 0, err
				}
			}
			return OIDVoid, nil
		case "coalesce":
			if len(x.Args) == 0 {
				return 0, pgErr("42601", "coalesce needs arguments")
			}
			var oid uint32
			for _, arg := range x.Args {
				t, err := a.exprType(arg, sc, oid)
				if err != nil {
					return 0, err
				}
				if oid == 0 {
					oid = t
				}
			}
			return oid, nil
		case "now":
			return OIDTimestamptz, nil
		case "current_database":
			return OIDText, nil
		case "pg_advisory_xact_lock", "pg_advisory_lock":
			for _, arg := range x.Args {
				if _, err := a.exprType(arg, sc, OIDInt8); err != nil {
					return 0, err
				}
			}
			return OIDVoid, nil
		}
		return 0, &ErrUnsupported{"function " + x.Name}
	}
	return 0, &ErrUnsupported{fmt.Sprintf("expression %T", e)}
}

func (a *analyzer) tableScope(tn TableName) (*scope, error) {
	if tn.Schema == "public" {
		if cols, ok := a.ctes[tn.Name]; ok {
			return &scope{cols: cols}, nil
		}
	}
	if tn.Schema == "information_schema" && tn.Name == "columns" {
		sc := &scope{}
		for _, n := range []string{"table_schema", "table_name", "column_name", "data_type"} {
			sc.cols = append(sc.cols, scopeCol{"columns", n, OIDText})
		}
		return sc, nil
	}
	t, err := a.db.table(tn)
	if err != nil {
		return nil, err
	}
	sc := &scope{}
	for _, c := range t.Cols {
		sc.cols = append(sc.cols, scopeCol{t.Name, c.Name, c.OID})
	}
	return sc, nil
}

func exprName(e Expr) string {
	switch x := e.(type) {
	case ECol:
		return x.Name
	case EFunc:
		return x.Name
	case ECast:
		return exprName(x.E)
	case ELit:
		if _, ok := x.V.(bool); ok {
			return "bool"
		}
	}
	return "?column?"
}

func (a *analyzer) selectCols(sel *StmtSelect) ([]ResultCol, error) {
	saved := a.ctes
	if len(sel.With) > 0 {
		n := map[string][]scopeCol{}
		for k, v := range a.ctes {
			n[k] = v
		}
		a.ctes = n
		for _, cte := range sel.With {
			cols, err := a.selectCols(cte.Sel)
			if err != nil {
				return nil, err
			}
			var sc []scopeCol
			for _, c := range cols {
				sc = append(sc, scopeCol{cte.Name, c.Name, c.OID})
			}
			a.ctes[cte.Name] = sc
		}
		defer func() { a.ctes = saved }()
	}
	var sc *scope
	if sel.From != nil {
		var err error
		sc, err = a.tableScope(*sel.From)
		if err != nil {
			return nil, err
		}
	}
	var out []ResultCol
	if sel.Star {
		if sc == nil {
			return nil, &ErrSyntax{"SELECT * with no tables specified is not valid"}
		}
		for _, c := range sc.cols {
			out = append(out, ResultCol{c.name, c.oid})
		}
	}
	for _, it := range sel.List {
		oid, err := a.exprType(it.E, sc, 0)
		if err != nil {
			return nil, err
		}
		name := it.Alias
		if name == "" {
			name = exprName(it.E)
		}
		out = append(out, ResultCol{name, oid})
	}
	for _, e := range sel.DistinctOn {
		if _, err := a.exprType(e, sc, 0); err != nil {
			return nil, err
		}
	}
	if sel.Where != nil {
		if _, err := a.exprType(sel.Where, sc, OIDBool); err != nil {
			return nil, err
		}
	}
	for _, oi := range sel.OrderBy {
		if _, err := a.exprType(oi.E, a.orderScope(sc, out), 0); err != nil {
			return nil, err
		}
	}
	if sel.Limit != nil {
		if _, err := a.exprType(sel.Limit, nil, OIDInt8); err != nil {
			return nil, err
		}
	}
	return out, nil
}

// ORDER BY may refer to output column names as well as input columns.
func (a *analyzer) orderScope(sc *scope, out []ResultCol) *scope {
	n := &scope{}
	if sc != nil {
		n.cols = append(n.cols, sc.cols...)
	}
	for _, c := range out {
		found := false
		for _, e := range n.cols {
			if e.name == c.Name {
				found = true
			}
		}
		if !found {
			n.cols = append(n.cols, scopeCol{"", c.Name, c.OID})
		}
	}
	return n
}

// Prepare analyses one statement against the current catalog.
func (db *DB) Prepare(sql string, stmt Stmt) (*Prepared, error) {
	a := &analyzer{db: db, params: map[int]uint32{}, ctes: map[string][]scopeCol{}}
	p := &Prepared{SQL: sql, Stmt: stmt}
	switch s := stmt.(type) {
	case *StmtSelect:
		cols, err := a.selectCols(s)
		if err != nil {
			return nil, err
		}
		p.Cols = cols
	case StmtInsert:
		t, err := db.table(s.Table)
		if err != nil {
			return nil, err
		}
		cols := s.Cols
		if len(cols) == 0 {
			for _, c := range t.Cols {
				cols = append(cols, c.Name)
			}
		}
		for _, row := range s.Rows {
			if len(row) != len(cols) {
				return nil, &ErrSyntax{"INSERT has more or fewer expressions than target columns"}
			}
			for i, e := range row {
				ci := t.Col(cols[i])
				if ci < 0 {
					return nil, pgErr("42703", "column %q of relation %q does not exist", cols[i], t.Name)
				}
				if _, err := a.exprType(e, nil, t.Cols[ci].OID); err != nil {
					return nil, err
				}
			}
		}
	case StmtDelete:
		sc, err := a.tableScope(s.Table)
		if err != nil {
			return nil, err
		}
		if s.Where != nil {
			if _, err := a.exprType(s.Where, sc, OIDBool); err != nil {
				return nil, err
			}
		}
	case StmtPruneTop:
		t, err := a.db.table(s.Table)
		if err != nil {
			return nil, err
		}
		for _, c := range append(append(append([]string(nil), s.KeyCols...), s.PartCols...), s.OrderCols...) {
			if t.Col(c) < 0 {
				return nil, pgErr("42703", "column %q does not exist", c)
			}
		}
		a.setParam(s.Param, OIDInt8)
	}
	maxN := 0
	for n := range a.params {
		if n > maxN {
			maxN = n
		}
	}
	p.ParamOIDs = make([]uint32, maxN)
	for i := range p.ParamOIDs {
		o, ok := a.params[i+1]
		if !ok || o == OIDUnknown {
			o = OIDText
		}
		p.ParamOIDs[i] = o
	}
	return p, nil
}

// ---- evaluation ----

type evalCtx struct {
	tx     *Tx
	params []Value
	ctes   map[string]*relation
}

type relation struct {
	cols []scopeCol
	rows [][]Value
}

func truthy(v Value) bool {
	b, ok := v.(bool)
	return ok && b
}

func coerceForCompare(a, b Value) (Value, Value) {
	// numeric vs text literal etc.
	switch x := a.(type) {
	case *big.Int:
		if s, ok := b.(string); ok {
			if n, ok2 := new(big.Int).SetString(s, 10); ok2 {
				return x, n
			}
		}
	case int64:
		if s, ok := b.(string); ok {
			if n, ok2 := new(big.Int).SetString(s, 10); ok2 && n.IsInt64() {
				return x, n.Int64()
			}
		}
	case string:
		switch b.(type) {
		case *big.Int, int64:
			bb, aa := coerceForCompare(b, a)
			return aa, bb
		}
	}
	return a, b
}

func (ec *evalCtx) eval(e Expr, sc *scope, row []Value) (Value, error) {
	switch x := e.(type) {
	case ELit:
		return x.V, nil
	case EParam:
		if x.N > len(ec.params) {
			return nil, pgErr("08P01", "there is no parameter $%d", x.N)
		}
		return ec.params[x.N-1], nil
	case ECol:
		if sc == nil {
			return nil, pgErr("42703", "column %q does not exist", x.Name)
		}
		i, err := sc.find(x.Table, x.Name)
		if err != nil {
			return nil, err
		}
		return row[i], nil
	case EBin:
		switch x.Op {
		case "and":
			l, err := ec.eval(x.L, sc, row)
			if err != nil {
				return nil, err
			}
			r, err := ec.eval(x.R, sc, row)
			if err != nil {
				return nil, err
			}
			if lb, ok := l.(bool); ok && !lb {
				return false, nil
			}
			if rb, ok := r.(bool); ok && !rb {
				return false, nil
			}
			if l == nil || r == nil {
				return nil, nil
			}
			return true, nil
		case "or":
			l, err := ec.eval(x.L, sc, row)
			if err != nil {
				return nil, err
			}
			r, err := ec.eval(x.R, sc, row)
			if err != nil {
				return nil, err
			}
			if truthy(l) || truthy(r) {
				return true, nil
			}
			if l == nil || r == nil {
				return nil, nil
			}
			return false, nil
		}
		l, err := ec.eval(x.L, sc, row)
		if err != nil {
			return nil, err
		}
		r, err := ec.eval(x.R, sc, row)
		if err != nil {
			return nil, err
		}
		if l == nil || r == nil {
			return nil, nil
		}
		l, r = coerceForCompare(l, r)
		c, err := CompareValues(l, r)
		if err != nil {
			return nil, pgErr("42883", "operator does not exist: %v", err)
		}
		switch x.Op {
		case "=":
			return c == 0, nil
		case "<>":
			return c != 0, nil
		case "<":
			return c < 0, nil
		case "<=":
			return c <= 0, nil
		case ">":
			return c > 0, nil
		case ">=":
			return c >= 0, nil
		}
	case ENot:
		v, err := ec.eval(x.E, sc, row)
		if err != nil || v == nil {
			return nil, err
		}
		return !truthy(v), nil
	case EIsNull:
		v, err := ec.eval(x.E, sc, row)
		if err != nil {
			return nil, err
		}
		return (v == nil) != x.Not, nil
	case EAny:
		l, err := ec.eval(x.L, sc, row)
		if err != nil {
			return nil, err
		}
		arr, err := ec.eval(x.Arr, sc, row)
		if err != nil {
			return nil, err
		}
		if l == nil || arr == nil {
			return nil, nil
		}
		vs, ok := arr.([]Value)
		if !ok {
			return nil, pgErr("42809", "op ANY/ALL (array) requires array on right side")
		}
		sawNull := false
		for _, v := range vs {
			if v == nil {
				sawNull = true
				continue
			}
			a, b := coerceForCompare(l, v)
			c, err := CompareValues(a, b)
			if err != nil {
				return nil, pgErr("42883", "operator does not exist: %v", err)
			}
			if c == 0 {
				return true, nil
			}
		}
		if sawNull {
			return nil, nil
		}
		return false, nil
	case ECast:
		v, err := ec.eval(x.E, sc, row)
		if err != nil || v == nil {
			return v, err
		}
		oid, _ := typeOID(x.Type)
		return castValue(v, oid)
	case EFunc:
		switch x.Name {
		case "now":
			return ec.tx.db.Now(), nil
		case "current_database":
			return "shovel", nil
		case "coalesce":
			for _, arg := range x.Args {
				v, err := ec.eval(arg, sc, row)
				if err != nil {
					return nil, err
				}
				if v != nil {
					return v, nil
				}
			}
			return nil, nil
		case "pg_notify":
			ch, err := ec.eval(x.Args[0], sc, row)
			if err != nil {
				return nil, err
			}
			pl, err := ec.eval(x.Args[1], sc, row)
			if err != nil {
				return nil, err
			}
			ec.tx.notifs = append(ec.tx.notifs, Notif{Channel: fmt.Sprint(ch), Payload: fmt.Sprint(pl), Owner: ec.tx.owner})
			return nil, nil
		case "pg_advisory_xact_lock", "pg_advisory_lock":
			return nil, nil
		}
		return nil, &ErrUnsupported{"function " + x.Name + " in this position"}
	}
	return nil, &ErrUnsupported{fmt.Sprintf("eval %T", e)}
}

func castValue(v Value, oid uint32) (Value, error) {
	switch oid {
	case OIDText, OIDVarchar:
		switch x := v.(type) {
		case string:
			return x, nil
		case JSON:
			return string(x), nil
		default:
			return strings.Trim(FormatValue(v), "'"), nil
		}
	case OIDNumeric:
		switch x := v.(type) {
		case *big.Int:
			return x, nil
		case int64:
			return big.NewInt(x), nil
		case string:
			n, ok := new(big.Int).SetString(x, 10)
			if !ok {
				return nil, pgErr("22P02", "invalid input syntax for type numeric: %q", x)
			}
			return n, nil
		}
	case OIDInt2, OIDInt4, OIDInt8:
		switch x := v.(type) {
		case int64:
			return x, nil
		case *big.Int:
			if !x.IsInt64() {
				return nil, pgErr("22003", "integer out of range")
			}
			return x.Int64(), nil
		case string:
			n, ok := new(big.Int).SetString(x, 10)
			if !ok || !n.IsInt64() {
				return nil, pgErr("22P02", "invalid input syntax for type integer: %q", x)
			}
			return n.Int64(), nil
		}
	case OIDBool:
		switch x := v.(type) {
		case bool:
			return x, nil
		case string:
			switch strings.ToLower(x) {
			case "t", "true", "1", "yes", "on":
				return true, nil
			case "f", "false", "0", "no", "off":
				return false, nil
			}
		}
	case OIDJSONB, OIDJSON:
		switch x := v.(type) {
		case string:
			return JSON(x), nil
		case JSON:
			return x, nil
		case []byte:
			return JSON(string(x)), nil
		}
	case OIDBytea:
		if b, ok := v.([]byte); ok {
			return b, nil
		}
	case OIDInterval:
		switch x := v.(type) {
		case Interval:
			return x, nil
		case string:
			if x == "0" {
				return Interval(0), nil
			}
		}
	case OIDTimestamptz, OIDTimestamp:
		if t, ok := v.(time.Time); ok {
			return t, nil
		}
	}
	return nil, pgErr("42846", "cannot cast %T to %s", v, oidTypeName(oid))
}

func intRange(oid uint32, n int64) error {
	switch oid {
	case OIDInt2:
		if n < -32768 || n > 32767 {
			return pgErr("22003", "smallint out of range")
		}
	case OIDInt4:
		if n < -2147483648 || n > 2147483647 {
			return pgErr("22003", "integer out of range")
		}
	}
	return nil
}

func (ec *evalCtx) relationOf(tn TableName) (*relation, error) {
	if tn.Schema == "public" {
		if r, ok := ec.ctes[tn.Name]; ok {
			return r, nil
		}
	}
	db := ec.tx.db
	if tn.Schema == "information_schema" && tn.Name == "columns" {
		rel := &relation{}
		for _, n := range []string{"table_schema", "table_name", "column_name", "data_type"} {
			rel.cols = append(rel.cols, scopeCol{"columns", n, OIDText})
		}
		var names []string
		for k := range db.tables {
			names = append(names, k)
		}
		sort.Strings(names)
		for _, k := range names {
			t := db.tables[k]
			for _, c := range t.Cols {
				rel.rows = append(rel.rows, []Value{t.Schema, t.Name, c.Name, oidTypeName(c.OID)})
			}
		}
		return rel, nil
	}
	t, err := db.table(tn)
	if err != nil {
		return nil, err
	}
	rel := &relation{}
	for _, c := range t.Cols {
		rel.cols = append(rel.cols, scopeCol{t.Name, c.Name, c.OID})
	}
	for _, r := range ec.tx.rows(t) {
		vals := r.Vals
		if len(vals) < len(t.Cols) { // columns added after the row was written
			vals = append(append([]Value(nil), vals...), make([]Value, len(t.Cols)-len(vals))...)
		}
		rel.rows = append(rel.rows, vals)
	}
	return rel, nil
}

func (ec *evalCtx) runSelect(sel *StmtSelect) (*relation, error) {
	if len(sel.With) > 0 {
		saved := ec.ctes
		n := map[string]*relation{}
		for k, v := range saved {
			n[k] = v
		}
		ec.ctes = n
		defer func() { ec.ctes = saved }()
		for _, cte := range sel.With {
			r, err := ec.runSelect(cte.Sel)
			if err != nil {
				return nil, err
			}
			for i := range r.cols {
				r.cols[i].table = cte.Name
			}
			ec.ctes[cte.Name] = r
		}
	}
	var sc *scope
	var input [][]Value
	if sel.From != nil {
		rel, err := ec.relationOf(*sel.From)
		if err != nil {
			return nil, err
		}
		sc = &scope{cols: rel.cols}
		input = rel.rows
	} else {
		input = [][]Value{nil}
	}
	// where
	var filtered [][]Value
	for _, row := range input {
		if sel.Where != nil {
			v, err := ec.eval(sel.Where, sc, row)
			if err != nil {
				return nil, err
			}
			if !truthy(v) {
				continue
			}
		}
		filtered = append(filtered, row)
	}
	// aggregates: only count(*) / count(x) as the sole kind of select item
	agg := false
	for _, it := range sel.List {
		if f, ok := it.E.(EFunc); ok && f.Name == "count" {
			agg = true
		}
	}
	out := &relation{}
	if agg {
		if len(sel.List) != 1 {
			return nil, &ErrUnsupported{"aggregate mixed with other select items"}
		}
		out.cols = []scopeCol{{"", "count", OIDInt8}}
		out.rows = [][]Value{{int64(len(filtered))}}
		return out, nil
	}
	// output columns
	if sel.Star {
		out.cols = append(out.cols, sc.cols...)
	}
	an := &analyzer{db: ec.tx.db, params: map[int]uint32{}, ctes: map[string][]scopeCol{}}
	for _, it := range sel.List {
		name := it.Alias
		if name == "" {
			name = exprName(it.E)
		}
		oid := uint32(OIDText)
		if o, err := an.exprType(it.E, sc, 0); err == nil {
			oid = o
		}
		out.cols = append(out.cols, scopeCol{"", name, oid})
	}
	type prow struct {
		in  []Value
		out []Value
	}
	var rows []prow
	for _, row := range filtered {
		var o []Value
		if sel.Star {
			o = append(o, row...)
		}
		for _, it := range sel.List {
			v, err := ec.eval(it.E, sc, row)
			if err != nil {
				return nil, err
			}
			o = append(o, v)
		}
		rows = append(rows, prow{row, o})
	}
	// order by (stable): evaluated over input columns, falling back to outputs
	osc := an.orderScope(sc, nil)
	for _, c := range out.cols {
		found := false
		for _, e := range osc.cols {
			if e.name == c.name {
				found = true
			}
		}
		if !found {
			osc.cols = append(osc.cols, scopeCol{"", c.name, c.oid})
		}
	}
	nIn := 0
	if sc != nil {
		nIn = len(sc.cols)
	}
	combined := func(p prow) []Value {
		v := make([]Value, 0, len(osc.cols))
		v = append(v, p.in...)
		for len(v) < nIn {
			v = append(v, nil)
		}
		// appended output-only columns, in osc order
		for _, c := range osc.cols[nIn:] {
			for j, oc := range out.cols {
				if oc.name == c.name {
					v = append(v, p.out[j])
					break
				}
			}
		}
		return v
	}
	if len(sel.OrderBy) > 0 {
		var sortErr error
		sort.SliceStable(rows, func(i, j int) bool {
			ci, cj := combined(rows[i]), combined(rows[j])
			for _, oi := range sel.OrderBy {
				a, err := ec.eval(oi.E, osc, ci)
				if err != nil {
					sortErr = err
					return false
				}
				b, err := ec.eval(oi.E, osc, cj)
				if err != nil {
					sortErr = err
					return false
				}
				var c int
				switch {
				case a == nil && b == nil:
					c = 0
				case a == nil:
					c = 1 // NULLS LAST for asc
				case b == nil:
					c = -1
				default:
					c, err = CompareValues(a, b)
					if err != nil {
						sortErr = err
						return false
					}
				}
				if oi.Desc {
					c = -c
				}
				if c != 0 {
					return c < 0
				}
			}
			return false
		})
		if sortErr != nil {
			return nil, sortErr
		}
	}
	// distinct on
	if len(sel.DistinctOn) > 0 {
		seen := map[string]bool{}
		var kept []prow
		for _, r := range rows {
			var sb strings.Builder
			for _, e := range sel.DistinctOn {
				v, err := ec.eval(e, osc, combined(r))
				if err != nil {
					return nil, err
				}
				sb.WriteString(FormatValue(v))
				sb.WriteByte(0)
			}
			if seen[sb.String()] {
				continue
			}
			seen[sb.String()] = true
			kept = append(kept, r)
		}
		rows = kept
	}
	if sel.Limit != nil {
		v, err := ec.eval(sel.Limit, nil, nil)
		if err != nil {
			return nil, err
		}
		n, err := castValue(v, OIDInt8)
		if err != nil {
			return nil, err
		}
		if l := n.(int64); l >= 0 && int(l) < len(rows) {
			rows = rows[:l]
		}
	}
	for _, r := range rows {
		out.rows = append(out.rows, r.out)
	}
	return out, nil
}

// ExecResult is what one statement produced.
type ExecResult struct {
	Tag  string
	Cols []ResultCol
	Rows [][]Value
}

func (db *DB) newTable(tn TableName, cols []ColDef) error {
	if !db.schemas[tn.Schema] {
		return pgErr("3F000", "schema %q does not exist", tn.Schema)
	}
	t := &Table{Schema: tn.Schema, Name: tn.Name}
	seen := map[string]bool{}
	for _, cd := range cols {
		oid, ok := typeOID(cd.Type)
		if !ok {
			return pgErr("42704", "type %q does not exist", cd.Type)
		}
		if seen[cd.Name] {
			return pgErr("42701", "column %q specified more than once", cd.Name)
		}
		seen[cd.Name] = true
		c := Column{Name: cd.Name, OID: oid, DefaultNow: cd.DefaultNow, NotNull: cd.NotNull}
		if cd.Default != nil {
			if l, ok := cd.Default.(ELit); ok {
				c.DefaultVal = l.V
			}
		}
		t.Cols = append(t.Cols, c)
	}
	db.tables[t.FullName()] = t
	return nil
}

// execStmt runs one non-transaction-control statement inside tx.
func (tx *Tx) execStmt(stmt Stmt, params []Value) (*ExecResult, error) {
	db := tx.db
	ec := &evalCtx{tx: tx, params: params, ctes: map[string]*relation{}}
	switch s := stmt.(type) {
	case StmtSet:
		return &ExecResult{Tag: "SET"}, nil
	case StmtNoop:
		return &ExecResult{Tag: s.Tag}, nil
	case StmtCreateSchema:
		db.schemas[s.Name] = true
		return &ExecResult{Tag: "CREATE SCHEMA"}, nil
	case StmtCreateTable:
		if _, ok := db.tables[s.Table.Schema+"."+s.Table.Name]; ok {
			return &ExecResult{Tag: "CREATE TABLE"}, nil
		}
		if err := db.newTable(s.Table, s.Cols); err != nil {
			return nil, err
		}
		tx.ddl = true
		return &ExecResult{Tag: "CREATE TABLE"}, nil
	case StmtCreateIndex:
		t, err := db.table(s.Table)
		if err != nil {
			return nil, err
		}
		// index names are unique per schema
		for _, ot := range db.tables {
			if ot.Schema != t.Schema {
				continue
			}
			for _, ix := range ot.Indexes {
				if ix.Name == s.Name {
					return &ExecResult{Tag: "CREATE INDEX"}, nil // if not exists
				}
			}
		}
		ix := Index{Name: s.Name, Unique: s.Unique}
		for _, cn := range s.Cols {
			ci := t.Col(cn)
			if ci < 0 {
				return nil, pgErr("42703", "column %q does not exist", cn)
			}
			ix.Cols = append(ix.Cols, ci)
		}
		if ix.Unique {
			seen := map[string]bool{}
			for _, r := range tx.rows(t) {
				if k, ok := uniqueKey(r.Vals, ix.Cols); ok {
					if seen[k] {
						return nil, pgErr("23505", "could not create unique index %q", s.Name)
					}
					seen[k] = true
				}
			}
		}
		t.Indexes = append(t.Indexes, ix)
		tx.ddl = true
		return &ExecResult{Tag: "CREATE INDEX"}, nil
	case StmtAlterAddCol:
		t, err := db.table(s.Table)
		if err != nil {
			return nil, err
		}
		if t.Col(s.Col.Name) >= 0 {
			return &ExecResult{Tag: "ALTER TABLE"}, nil
		}
		oid, ok := typeOID(s.Col.Type)
		if !ok {
			return nil, pgErr("42704", "type %q does not exist", s.Col.Type)
		}
		t.Cols = append(append([]Column(nil), t.Cols...), Column{Name: s.Col.Name, OID: oid, DefaultNow: s.Col.DefaultNow})
		tx.ddl = true
		return &ExecResult{Tag: "ALTER TABLE"}, nil
	case StmtInsert:
		t, err := db.table(s.Table)
		if err != nil {
			return nil, err
		}
		cols := s.Cols
		if len(cols) == 0 {
			for _, c := range t.Cols {
				cols = append(cols, c.Name)
			}
		}
		for _, rowE := range s.Rows {
			vals := make([]Value, len(t.Cols))
			set := make([]bool, len(t.Cols))
			for i, e := range rowE {
				ci := t.Col(cols[i])
				if ci < 0 {
					return nil, pgErr("42703", "column %q does not exist", cols[i])
				}
				v, err := ec.eval(e, nil, nil)
				if err != nil {
					return nil, err
				}
				if v != nil {
					v, err = castValue(v, t.Cols[ci].OID)
					if err != nil {
						return nil, err
					}
					if n, ok := v.(int64); ok {
						if err := intRange(t.Cols[ci].OID, n); err != nil {
							return nil, err
						}
					}
				}
				vals[ci] = v
				set[ci] = true
			}
			for i, c := range t.Cols {
				if set[i] {
					continue
				}
				switch {
				case c.DefaultNow:
					vals[i] = db.Now()
				case c.DefaultVal != nil:
					vals[i] = c.DefaultVal
				}
			}
			if err := tx.insertRow(t, vals); err != nil {
				return nil, err
			}
		}
		return &ExecResult{Tag: fmt.Sprintf("INSERT 0 %d", len(s.Rows))}, nil
	case StmtDelete:
		t, err := db.table(s.Table)
		if err != nil {
			return nil, err
		}
		sc := &scope{}
		for _, c := range t.Cols {
			sc.cols = append(sc.cols, scopeCol{t.Name, c.Name, c.OID})
		}
		n := 0
		for _, r := range tx.rows(t) {
			vals := r.Vals
			if len(vals) < len(t.Cols) {
				vals = append(append([]Value(nil), vals...), make([]Value, len(t.Cols)-len(vals))...)
			}
			if s.Where != nil {
				v, err := ec.eval(s.Where, sc, vals)
				if err != nil {
					return nil, err
				}
				if !truthy(v) {
					continue
				}
			}
			tx.deleteRow(t, r)
			n++
		}
		return &ExecResult{Tag: fmt.Sprintf("DELETE %d", n)}, nil
	case StmtPruneTop:
		t, err := db.table(s.Table)
		if err != nil {
			return nil, err
		}
		if s.Param < 1 || s.Param > len(ec.params) {
			return nil, pgErr("08P01", "there is no parameter $%d", s.Param)
		}
		keep, ok := valInt64(ec.params[s.Param-1])
		if !ok {
			return nil, pgErr("22P02", "invalid input for row count")
		}
		idx := func(cols []string) []int {
			var out []int
			for _, c := range cols {
				out = append(out, t.Col(c))
			}
			return out
		}
		keyOf := func(r *Row, ix []int) string {
			var sb strings.Builder
			for _, i := range ix {
				var v Value
				if i < len(r.Vals) {
					v = r.Vals[i]
				}
				fmt.Fprintf(&sb, "%T:%v|", v, v)
			}
			return sb.String()
		}
		partIx, keyIx, ordIx := idx(s.PartCols), idx(s.KeyCols), idx(s.OrderCols)
		all := tx.rows(t)
		parts := map[string][]*Row{}
		var order []string
		for _, r := range all {
			k := keyOf(r, partIx)
			if _, seen := parts[k]; !seen {
				order = append(order, k)
			}
			parts[k] = append(parts[k], r)
		}
		kept := map[string]bool{}
		var sortErr error
		for _, k := range order {
			rs := parts[k]
			sort.SliceStable(rs, func(i, j int) bool {
				for k, oi := range ordIx {
					a, b := rs[i].Vals[oi], rs[j].Vals[oi]
					var c int
					switch {
					case a == nil && b == nil:
						c = 0
					case a == nil:
						c = 1 // NULLs sort as larger than everything
					case b == nil:
						c = -1
					default:
						var err error
						c, err = CompareValues(a, b)
						if err != nil {
							sortErr = err
						}
					}
					if s.OrderDesc[k] {
						c = -c
					}
					if c != 0 {
						return c < 0
					}
				}
				return false
			})
			for i, r := range rs {
				if int64(i) < keep {
					kept[keyOf(r, keyIx)] = true
				}
			}
		}
		if sortErr != nil {
			return nil, sortErr
		}
		n := 0
		for _, r := range all {
			// (a, b, c) NOT IN (...): a key with a NULL component is never
			// "not in" a non-empty set; the position table has none
			if !kept[keyOf(r, keyIx)] {
				tx.deleteRow(t, r)
				n++
			}
		}
		return &ExecResult{Tag: fmt.Sprintf("DELETE %d", n)}, nil
	case *StmtSelect:
		rel, err := ec.runSelect(s)
		if err != nil {
			return nil, err
		}
		res := &ExecResult{Tag: fmt.Sprintf("SELECT %d", len(rel.rows)), Rows: rel.rows}
		for _, c := range rel.cols {
			res.Cols = append(res.Cols, ResultCol{c.name, c.oid})
		}
		return res, nil
	}
	return nil, &ErrUnsupported{fmt.Sprintf("exec %T", stmt)}
}

// copyRows inserts decoded COPY rows.
func (tx *Tx) copyRows(s StmtCopy, rows [][]Value) (int, error) {
	t, err := tx.db.table(s.Table)
	if err != nil {
		return 0, err
	}
	idx := make([]int, len(s.Cols))
	for i, cn := range s.Cols {
		idx[i] = t.Col(cn)
		if idx[i] < 0 {
			return 0, pgErr("42703", "column %q of relation %q does not exist", cn, t.Name)
		}
	}
	for _, in := range rows {
		if len(in) != len(idx) {
			return 0, pgErr("22P04", "row field count is %d, expected %d", len(in), len(idx))
		}
		vals := make([]Value, len(t.Cols))
		set := make([]bool, len(t.Cols))
		for i, v := range in {
			vals[idx[i]] = v
			set[idx[i]] = true
		}
		for i, c := range t.Cols {
			if set[i] {
				continue
			}
			switch {
			case c.DefaultNow:
				vals[i] = tx.db.Now()
			case c.DefaultVal != nil:
				vals[i] = c.DefaultVal
			}
		}
		if err := tx.insertRow(t, vals); err != nil {
			return 0, err
		}
	}
	return len(rows), nil
}

// WouldCollide reports whether inserting a row with these values into the
// table would violate a unique index given the currently committed rows.
func (db *DB) WouldCollide(full string, vals []Value) (bool, string) {
	db.mu.Lock()
	defer db.mu.Unlock()
	t := db.tables[full]
	if t == nil {
		return false, "no such table"
	}
	tx := db.newTx("oracle", 0)
	if err := tx.checkUnique(t, vals, t.Rows); err != nil {
		return true, err.Error()
	}
	return false, ""
}

// UniqueIndexes lists the unique indexes of a table as column-name lists.
func (db *DB) UniqueIndexes(full string) [][]string {
	db.mu.Lock()
	defer db.mu.Unlock()
	t := db.tables[full]
	if t == nil {
		return nil
	}
	var out [][]string
	for _, ix := range t.Indexes {
		if !ix.Unique {
			continue
		}
		var cols []string
		for _, c := range ix.Cols {
			cols = append(cols, t.Cols[c].Name)
		}
		out = append(out, cols)
	}
	return out
}
