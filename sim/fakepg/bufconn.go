package fakepg

import (
	"io"
	"net"
	"os"
	"sync"
	"time"
)

// BufPipe is an in-memory full-duplex connection buffered without bound in
// both directions (like a TCP socket whose kernel buffers never fill).
// net.Pipe is unbuffered, and pgx's COPY path writes data while the server is
// writing its reply, which deadlocks on an unbuffered pipe; a blocked client
// write also arms pgx's 15 ms slow-write timer, whose callback takes a
// sync.Mutex that pgx holds across a blocking read (not a durable block for
// testing/synctest). With buffered writes neither can happen.
// Blocking happens on sync.Cond only, which is durable for testing/synctest.
//
// Consequence for the seam (see harness.World.gate): during COPY pgx waits
// for the server on an internal mutex, so COPY groups are decided inline from
// the decision stream without parking.
type bufHalf struct {
	mu       sync.Mutex
	cond     *sync.Cond
	buf      []byte
	closed   bool // writer side closed: reads drain then EOF
	rdClosed bool // reader side closed: writes fail
	deadline time.Time
	timer    *time.Timer
	syncWr   bool // writes wait until the reader consumed everything
}

func newHalf() *bufHalf {
	h := &bufHalf{}
	h.cond = sync.NewCond(&h.mu)
	return h
}

type bufConn struct {
	rd, wr *bufHalf
	local  string
}

type timeoutErr struct{}

func (timeoutErr) Error() string   { return "i/o timeout" }
func (timeoutErr) Timeout() bool   { return true }
func (timeoutErr) Temporary() bool { return true }
func (timeoutErr) Unwrap() error   { return os.ErrDeadlineExceeded }

// BufPipe returns the two ends of a buffered in-memory connection.
func BufPipe() (net.Conn, net.Conn) {
	a, b := newHalf(), newHalf()
	return &bufConn{rd: a, wr: b, local: "client"}, &bufConn{rd: b, wr: a, local: "server"}
}

func (c *bufConn) Read(p []byte) (int, error) {
	h := c.rd
	h.mu.Lock()
	defer h.mu.Unlock()
	for {
		if h.rdClosed {
			return 0, io.ErrClosedPipe
		}
		if len(h.buf) > 0 {
			n := copy(p, h.buf)
			h.buf = h.buf[n:]
			if len(h.buf) == 0 {
				h.buf = nil
				if h.syncWr {
					h.cond.Broadcast()
				}
			}
			return n, nil
		}
		if h.closed {
			return 0, io.EOF
		}
		if !h.deadline.IsZero() && !time.Now().Before(h.deadline) {
			return 0, timeoutErr{}
		}
		if len(p) == 0 {
			return 0, nil
		}
		h.cond.Wait()
	}
}

func (c *bufConn) Write(p []byte) (int, error) {
	h := c.wr
	h.mu.Lock()
	defer h.mu.Unlock()
	if h.closed || h.rdClosed {
		return 0, io.ErrClosedPipe
	}
	h.buf = append(h.buf, p...)
	h.cond.Broadcast()
	if h.syncWr {
		for len(h.buf) > 0 && !h.closed && !h.rdClosed {
			h.cond.Wait()
		}
		if len(h.buf) > 0 {
			return 0, io.ErrClosedPipe
		}
	}
	return len(p), nil
}

func (c *bufConn) Close() error {
	c.wr.mu.Lock()
	c.wr.closed = true
	c.wr.cond.Broadcast()
	c.wr.mu.Unlock()
	c.rd.mu.Lock()
	c.rd.rdClosed = true
	if c.rd.timer != nil {
		c.rd.timer.Stop()
	}
	c.rd.cond.Broadcast()
	c.rd.mu.Unlock()
	return nil
}

type bufAddr string

func (a bufAddr) Network() string { return "sim" }
func (a bufAddr) String() string  { return string(a) }

func (c *bufConn) LocalAddr() net.Addr  { return bufAddr(c.local) }
func (c *bufConn) RemoteAddr() net.Addr { return bufAddr("peer-of-" + c.local) }

func (c *bufConn) SetDeadline(t time.Time) error {
	c.SetReadDeadline(t)
	return nil
}

func (c *bufConn) SetReadDeadline(t time.Time) error {
	h := c.rd
	h.mu.Lock()
	defer h.mu.Unlock()
	h.deadline = t
	if h.timer != nil {
		h.timer.Stop()
		h.timer = nil
	}
	if !t.IsZero() {
		d := time.Until(t)
		if d <= 0 {
			h.cond.Broadcast()
		} else {
			h.timer = time.AfterFunc(d, func() {
				h.mu.Lock()
				h.cond.Broadcast()
				h.mu.Unlock()
			})
		}
	}
	return nil
}

func (c *bufConn) SetWriteDeadline(t time.Time) error { return nil } // writes never block
