package fakepg

import (
	"fmt"
	"regexp"
	"strconv"
	"strings"
)

// ---- lexer ----

type tokKind int

const (
	tEOF tokKind = iota
	tIdent
	tQIdent
	tString
	tNumber
	tParam
	tSym
)

type token struct {
	kind tokKind
	s    string // ident: lower-cased; qident: as written; sym: the symbol
	pos  int
}

type ErrUnsupported struct{ Msg string }

func (e *ErrUnsupported) Error() string { return "fakepg: unsupported SQL: " + e.Msg }

// ErrSyntax is a real syntax error (answered with 42601).
type ErrSyntax struct{ Msg string }

func (e *ErrSyntax) Error() string { return "syntax error: " + e.Msg }

func lex(src string) ([]token, error) {
	var toks []token
	i := 0
	for i < len(src) {
		c := src[i]
		switch {
		case c == ' ' || c == '\t' || c == '\n' || c == '\r':
			i++
		case c == '-' && i+1 < len(src) && src[i+1] == '-':
			for i < len(src) && src[i] != '\n' {
				i++
			}
		case isIdentStart(c):
			j := i
			for j < len(src) && isIdentPart(src[j]) {
				j++
			}
			toks = append(toks, token{tIdent, strings.ToLower(src[i:j]), i})
			i = j
		case c == '"':
			j := i + 1
			var sb strings.Builder
			for {
				if j >= len(src) {
					return nil, &ErrSyntax{"unterminated quoted identifier"}
				}
				if src[j] == '"' {
					if j+1 < len(src) && src[j+1] == '"' {
						sb.WriteByte('"')
						j += 2
						continue
					}
					break
				}
				sb.WriteByte(src[j])
				j++
			}
			toks = append(toks, token{tQIdent, sb.String(), i})
			i = j + 1
		case c == '\'':
			j := i + 1
			var sb strings.Builder
			for {
				if j >= len(src) {
					return nil, &ErrSyntax{"unterminated quoted string"}
				}
				if src[j] == '\'' {
					if j+1 < len(src) && src[j+1] == '\'' {
						sb.WriteByte('\'')
						j += 2
						continue
					}
					break
				}
				sb.WriteByte(src[j])
				j++
			}
			toks = append(toks, token{tString, sb.String(), i})
			i = j + 1
		case c >= '0' && c <= '9':
			j := i
			for j < len(src) && (src[j] >= '0' && src[j] <= '9') {
				j++
			}
			toks = append(toks, token{tNumber, src[i:j], i})
			i = j
		case c == '$':
			j := i + 1
			for j < len(src) && (src[j] >= '0' && src[j] <= '9') {
				j++
			}
			if j == i+1 {
				return nil, &ErrUnsupported{"dollar quoting"}
			}
			toks = append(toks, token{tParam, src[i+1 : j], i})
			i = j
		default:
			two := ""
			if i+1 < len(src) {
				two = src[i : i+2]
			}
			switch two {
			case "<>", "!=", "<=", ">=", "::":
				toks = append(toks, token{tSym, two, i})
				i += 2
				continue
			}
			switch c {
			case '(', ')', ',', ';', '.', '*', '=', '<', '>', '+', '-':
				toks = append(toks, token{tSym, string(c), i})
				i++
			default:
				return nil, &ErrSyntax{fmt.Sprintf("unexpected character %q at %d", c, i)}
			}
		}
	}
	toks = append(toks, token{tEOF, "", len(src)})
	return toks, nil
}

func isIdentStart(c byte) bool {
	return c == '_' || (c >= 'a' && c <= 'z') || (c >= 'A' && c <= 'Z') || c >= 0x80
}
func isIdentPart(c byte) bool {
	return isIdentStart(c) || (c >= '0' && c <= '9') || c == '$'
}

// ---- AST ----

type Stmt interface{}

type (
	StmtBegin    struct{}
	StmtCommit   struct{}
	StmtRollback struct{}
	// savepoints (pgx nested transactions)
	StmtSavepoint  struct{ Name string }
	StmtRollbackTo struct{ Name string }
	StmtRelease    struct{ Name string }
	StmtSet      struct{ Name, Value string }
	StmtNoop     struct{ Tag string }

	StmtCreateSchema struct{ Name string }
	StmtCreateTable  struct {
		Table TableName
		Cols  []ColDef
	}
	StmtCreateIndex struct {
		Name   string
		Unique bool
		Table  TableName
		Cols   []string
	}
	StmtAlterAddCol struct {
		Table TableName
		Col   ColDef
	}
	StmtInsert struct {
		Table TableName
		Cols  []string
		Rows  [][]Expr
	}
	StmtDelete struct {
		Table TableName
		Where Expr
	}
	StmtSelect struct {
		With       []CTE
		DistinctOn []Expr
		List       []SelItem
		Star       bool
		From       *TableName // nil: no FROM
		Where      Expr
		OrderBy    []OrderItem
		Limit      Expr
	}
	StmtCopy struct {
		Table TableName
		Cols  []string
	}
)

type TableName struct{ Schema, Name string }

type ColDef struct {
	Name       string
	Type       string
	DefaultNow bool
	Default    Expr
	NotNull    bool
}

type CTE struct {
	Name string
	Sel  *StmtSelect
}

type SelItem struct {
	E     Expr
	Alias string
}

type OrderItem struct {
	E    Expr
	Desc bool
}

type Expr interface{}

type (
	ELit   struct{ V Value }            // string, int64, bool, nil
	EParam struct{ N int }              // 1-based
	ECol   struct{ Table, Name string } // Table may be ""
	EBin   struct {
		Op   string // = <> < <= > >= and or
		L, R Expr
	}
	ENot  struct{ E Expr }
	EAny  struct{ L, Arr Expr } // L = ANY(Arr)
	EFunc struct {
		Name string
		Args []Expr
		Star bool
	}
	ECast struct {
		E    Expr
		Type string
	}
	EIsNull struct {
		E   Expr
		Not bool
	}
)

// ---- parser ----

type parser struct {
	toks []token
	i    int
	src  string
}

func (p *parser) peek() token { return p.toks[p.i] }
func (p *parser) next() token { t := p.toks[p.i]; p.i++; return t }
func (p *parser) isKw(kw string) bool {
	t := p.peek()
	return t.kind == tIdent && t.s == kw
}
func (p *parser) isSym(s string) bool {
	t := p.peek()
	return t.kind == tSym && t.s == s
}
func (p *parser) acceptKw(kw string) bool {
	if p.isKw(kw) {
		p.i++
		return true
	}
	return false
}
func (p *parser) acceptSym(s string) bool {
	if p.isSym(s) {
		p.i++
		return true
	}
	return false
}
func (p *parser) expectKw(kw string) error {
	if !p.acceptKw(kw) {
		return p.errf("expected %q", kw)
	}
	return nil
}
func (p *parser) expectSym(s string) error {
	if !p.acceptSym(s) {
		return p.errf("expected %q", s)
	}
	return nil
}
func (p *parser) errf(f string, a ...any) error {
	t := p.peek()
	near := t.s
	if t.kind == tEOF {
		near = "end of input"
	}
	return &ErrSyntax{fmt.Sprintf(f, a...) + fmt.Sprintf(" at or near %q (pos %d)", near, t.pos)}
}

// pgReserved: PostgreSQL's reserved key words (cannot be used as a bare
// identifier); from the SQL key words appendix of the PostgreSQL manual.
var pgReserved = map[string]bool{}

func init() {
	for _, w := range strings.Fields(`all analyse analyze and any array as asc asymmetric both case cast check collate column
constraint create current_catalog current_date current_role current_time current_timestamp current_user default deferrable
desc distinct do else end except false fetch for foreign from grant group having in initially intersect into lateral leading
limit localtime localtimestamp not null offset on only or order placing primary references returning select session_user
some symmetric table then to trailing true union unique user using variadic when where window with`) {
		pgReserved[w] = true
	}
}

func (p *parser) ident() (string, error) {
	t := p.peek()
	if t.kind == tIdent && pgReserved[t.s] {
		return "", p.errf("reserved word used as identifier")
	}
	if t.kind == tIdent || t.kind == tQIdent {
		p.i++
		return t.s, nil
	}
	return "", p.errf("expected identifier")
}

func (p *parser) tableName() (TableName, error) {
	a, err := p.ident()
	if err != nil {
		return TableName{}, err
	}
	if p.acceptSym(".") {
		b, err := p.ident()
		if err != nil {
			return TableName{}, err
		}
		return TableName{a, b}, nil
	}
	return TableName{"public", a}, nil
}

// ParseSQL parses a string possibly containing several ;-separated statements.
func ParseSQL(src string) ([]Stmt, error) {
	if strings.Contains(strings.ToLower(src), "row_number()") {
		s, err := parsePrune(src)
		if err != nil {
			return nil, err
		}
		return []Stmt{s}, nil
	}
	toks, err := lex(src)
	if err != nil {
		return nil, err
	}
	p := &parser{toks: toks, src: src}
	var out []Stmt
	for {
		for p.acceptSym(";") {
		}
		if p.peek().kind == tEOF {
			break
		}
		s, err := p.stmt()
		if err != nil {
			return nil, err
		}
		out = append(out, s)
		if p.peek().kind != tEOF && !p.isSym(";") {
			return nil, p.errf("unexpected token after statement")
		}
	}
	return out, nil
}

func (p *parser) stmt() (Stmt, error) {
	t := p.peek()
	if t.kind == tSym && t.s == "(" {
		return nil, &ErrUnsupported{"parenthesised statement"}
	}
	if t.kind != tIdent {
		return nil, p.errf("expected statement")
	}
	switch t.s {
	case "begin", "start":
		p.i++
		p.acceptKw("transaction")
		return StmtBegin{}, nil
	case "commit", "end":
		p.i++
		return StmtCommit{}, nil
	case "rollback", "abort":
		p.i++
		if p.acceptKw("to") {
			p.acceptKw("savepoint")
			name, err := p.ident()
			if err != nil {
				return nil, err
			}
			return StmtRollbackTo{name}, nil
		}
		return StmtRollback{}, nil
	case "savepoint":
		p.i++
		name, err := p.ident()
		if err != nil {
			return nil, err
		}
		return StmtSavepoint{name}, nil
	case "release":
		p.i++
		p.acceptKw("savepoint")
		name, err := p.ident()
		if err != nil {
			return nil, err
		}
		return StmtRelease{name}, nil
	case "set":
		p.i++
		name, err := p.ident()
		if err != nil {
			return nil, err
		}
		if !p.acceptSym("=") && !p.acceptKw("to") {
			return nil, p.errf("expected = or TO")
		}
		v := p.next()
		if v.kind != tString && v.kind != tIdent && v.kind != tNumber {
			return nil, p.errf("expected value")
		}
		return StmtSet{name, v.s}, nil
	case "create":
		return p.create()
	case "alter":
		return p.alter()
	case "insert":
		return p.insert()
	case "delete":
		return p.delete()
	case "select", "with":
		return p.selectStmt()
	case "copy":
		return p.copyStmt()
	case "drop":
		// drop index/view if exists ... : recorded as no-op
		p.i++
		kind, _ := p.ident()
		for p.peek().kind != tEOF && !p.isSym(";") {
			p.i++
		}
		return StmtNoop{"DROP " + strings.ToUpper(kind)}, nil
	}
	return nil, &ErrUnsupported{"statement starting with " + t.s}
}

func (p *parser) ifNotExists() {
	if p.isKw("if") {
		p.i++
		p.acceptKw("not")
		p.acceptKw("exists")
	}
}

func (p *parser) create() (Stmt, error) {
	p.i++ // create
	unique := p.acceptKw("unique")
	switch {
	case p.acceptKw("schema"):
		p.ifNotExists()
		n, err := p.ident()
		if err != nil {
			return nil, err
		}
		return StmtCreateSchema{n}, nil
	case p.acceptKw("table"):
		p.ifNotExists()
		tn, err := p.tableName()
		if err != nil {
			return nil, err
		}
		if err := p.expectSym("("); err != nil {
			return nil, err
		}
		var cols []ColDef
		for {
			cd, err := p.colDef()
			if err != nil {
				return nil, err
			}
			cols = append(cols, cd)
			if p.acceptSym(",") {
				continue
			}
			break
		}
		if err := p.expectSym(")"); err != nil {
			return nil, err
		}
		return StmtCreateTable{tn, cols}, nil
	case p.acceptKw("index"):
		p.ifNotExists()
		name, err := p.ident()
		if err != nil {
			return nil, err
		}
		if err := p.expectKw("on"); err != nil {
			return nil, err
		}
		tn, err := p.tableName()
		if err != nil {
			return nil, err
		}
		if p.acceptKw("using") {
			if _, err := p.ident(); err != nil {
				return nil, err
			}
		}
		if err := p.expectSym("("); err != nil {
			return nil, err
		}
		var cols []string
		for {
			c, err := p.ident()
			if err != nil {
				return nil, err
			}
			cols = append(cols, c)
			if p.acceptKw("desc") || p.acceptKw("asc") {
			}
			if p.acceptSym(",") {
				continue
			}
			break
		}
		if err := p.expectSym(")"); err != nil {
			return nil, err
		}
		return StmtCreateIndex{Name: name, Unique: unique, Table: tn, Cols: cols}, nil
	case p.acceptKw("or"):
		return nil, &ErrUnsupported{"create or replace"}
	}
	return nil, &ErrUnsupported{"create " + p.peek().s}
}

// type names may be several words ("timestamp with time zone") and carry
// modifiers like numeric(78,0) or varchar(20).
func (p *parser) typeName() (string, error) {
	t := p.peek()
	if t.kind != tIdent && t.kind != tQIdent {
		return "", p.errf("expected type name")
	}
	p.i++
	name := t.s
	if name == "character" && p.acceptKw("varying") {
		name = "character varying"
	}
	if name == "double" && p.acceptKw("precision") {
		name = "double precision"
	}
	if (name == "timestamp" || name == "time") && (p.isKw("with") || p.isKw("without")) {
		w := p.next().s
		p.acceptKw("time")
		p.acceptKw("zone")
		name = name + " " + w + " time zone"
	}
	if p.acceptSym("(") {
		for !p.isSym(")") {
			if p.peek().kind == tEOF {
				return "", p.errf("unterminated type modifier")
			}
			p.i++
		}
		p.i++
	}
	return name, nil
}

func (p *parser) colDef() (ColDef, error) {
	name, err := p.ident()
	if err != nil {
		return ColDef{}, err
	}
	typ, err := p.typeName()
	if err != nil {
		return ColDef{}, err
	}
	cd := ColDef{Name: name, Type: typ}
	for {
		switch {
		case p.acceptKw("default"):
			e, err := p.primary()
			if err != nil {
				return cd, err
			}
			if f, ok := e.(EFunc); ok && f.Name == "now" {
				cd.DefaultNow = true
			} else {
				cd.Default = e
			}
		case p.acceptKw("not"):
			if err := p.expectKw("null"); err != nil {
				return cd, err
			}
			cd.NotNull = true
		case p.acceptKw("null"):
		default:
			return cd, nil
		}
	}
}

func (p *parser) alter() (Stmt, error) {
	p.i++
	if err := p.expectKw("table"); err != nil {
		return nil, &ErrUnsupported{"alter (non-table)"}
	}
	tn, err := p.tableName()
	if err != nil {
		return nil, err
	}
	switch {
	case p.acceptKw("add"):
		p.acceptKw("column")
		p.ifNotExists()
		cd, err := p.colDef()
		if err != nil {
			return nil, err
		}
		return StmtAlterAddCol{tn, cd}, nil
	case p.acceptKw("drop"):
		for p.peek().kind != tEOF && !p.isSym(";") {
			p.i++
		}
		return StmtNoop{"ALTER TABLE"}, nil
	}
	return nil, &ErrUnsupported{"alter table action"}
}

func (p *parser) insert() (Stmt, error) {
	p.i++
	if err := p.expectKw("into"); err != nil {
		return nil, err
	}
	tn, err := p.tableName()
	if err != nil {
		return nil, err
	}
	var cols []string
	if p.acceptSym("(") {
		for {
			c, err := p.ident()
			if err != nil {
				return nil, err
			}
			cols = append(cols, c)
			if p.acceptSym(",") {
				continue
			}
			break
		}
		if err := p.expectSym(")"); err != nil {
			return nil, err
		}
	}
	if !p.acceptKw("values") {
		return nil, &ErrUnsupported{"insert without VALUES"}
	}
	var rows [][]Expr
	for {
		if err := p.expectSym("("); err != nil {
			return nil, err
		}
		var row []Expr
		for {
			e, err := p.expr()
			if err != nil {
				return nil, err
			}
			row = append(row, e)
			if p.acceptSym(",") {
				continue
			}
			break
		}
		if err := p.expectSym(")"); err != nil {
			return nil, err
		}
		rows = append(rows, row)
		if p.acceptSym(",") {
			continue
		}
		break
	}
	if p.isKw("on") || p.isKw("returning") {
		return nil, &ErrUnsupported{"insert ... on conflict/returning"}
	}
	return StmtInsert{tn, cols, rows}, nil
}

// StmtPruneTop is the one window-function statement the server understands:
//
//	delete from T where (k1, k2, ...) not in (
//	  select k1, k2, ... from (
//	    select ..., row_number() over(partition by p1, ... order by o desc) as rn from T
//	  ) as s where rn <= $n)
//
// (keep the newest n rows of every partition). Anything else with a window
// function is refused.
type StmtPruneTop struct {
	Table    TableName
	KeyCols  []string
	PartCols []string
	// the window's order by list; OrderDesc per column
	OrderCols []string
	OrderDesc []bool
	Param     int
}

var pruneRE = regexp.MustCompile(`(?s)^\s*delete\s+from\s+([a-z_.]+)\s+where\s*\(([a-z_, ]+)\)\s*not\s+in\s*\(\s*select\s+([a-z_, ]+?)\s+from\s*\(\s*select\s+([a-z_, \n\t]+?),\s*row_number\(\)\s*over\s*\(\s*partition\s+by\s+([a-z_, ]+?)\s+order\s+by\s+([a-z_, ]+?)\s*\)\s*as\s+rn\s+from\s+([a-z_.]+)\s*\)\s*as\s+[a-z]+\s+where\s+rn\s*<=\s*\$([0-9]+)\s*\)\s*;?\s*$`)

func splitCols(s string) []string {
	var out []string
	for _, c := range strings.Split(s, ",") {
		if c = strings.TrimSpace(c); c != "" {
			out = append(out, c)
		}
	}
	return out
}

func parsePrune(src string) (Stmt, error) {
	m := pruneRE.FindStringSubmatch(strings.ToLower(src))
	if m == nil || m[1] != m[7] {
		return nil, &ErrUnsupported{"window function outside the keep-newest-n form"}
	}
	key, sel, inner := splitCols(m[2]), splitCols(m[3]), splitCols(m[4])
	if fmt.Sprint(key) != fmt.Sprint(sel) {
		return nil, &ErrUnsupported{"keep-newest-n form with differing key lists"}
	}
	have := map[string]bool{}
	for _, c := range inner {
		have[c] = true
	}
	for _, c := range key {
		if !have[c] {
			return nil, &ErrUnsupported{"keep-newest-n form: key column not selected"}
		}
	}
	tn := TableName{Name: m[1]}
	if i := strings.Index(m[1], "."); i >= 0 {
		tn = TableName{Schema: m[1][:i], Name: m[1][i+1:]}
	}
	n, _ := strconv.Atoi(m[8])
	st := StmtPruneTop{Table: tn, KeyCols: key, PartCols: splitCols(m[5]), Param: n}
	for _, it := range splitCols(m[6]) {
		f := strings.Fields(it)
		switch {
		case len(f) == 1:
			st.OrderCols, st.OrderDesc = append(st.OrderCols, f[0]), append(st.OrderDesc, false)
		case len(f) == 2 && (f[1] == "asc" || f[1] == "desc"):
			st.OrderCols, st.OrderDesc = append(st.OrderCols, f[0]), append(st.OrderDesc, f[1] == "desc")
		default:
			return nil, &ErrUnsupported{"keep-newest-n form: order by item " + it}
		}
	}
	if len(st.OrderCols) == 0 {
		return nil, &ErrUnsupported{"keep-newest-n form without order by"}
	}
	return st, nil
}

func (p *parser) delete() (Stmt, error) {
	p.i++
	if err := p.expectKw("from"); err != nil {
		return nil, err
	}
	tn, err := p.tableName()
	if err != nil {
		return nil, err
	}
	var where Expr
	if p.acceptKw("where") {
		where, err = p.expr()
		if err != nil {
			return nil, err
		}
	}
	if p.isKw("using") || p.isKw("returning") {
		return nil, &ErrUnsupported{"delete using/returning"}
	}
	return StmtDelete{tn, where}, nil
}

func (p *parser) copyStmt() (Stmt, error) {
	p.i++
	tn, err := p.tableName()
	if err != nil {
		return nil, err
	}
	var cols []string
	if p.acceptSym("(") {
		for {
			c, err := p.ident()
			if err != nil {
				return nil, err
			}
			cols = append(cols, c)
			if p.acceptSym(",") {
				continue
			}
			break
		}
		if err := p.expectSym(")"); err != nil {
			return nil, err
		}
	}
	if err := p.expectKw("from"); err != nil {
		return nil, err
	}
	if err := p.expectKw("stdin"); err != nil {
		return nil, err
	}
	if !p.acceptKw("binary") {
		return nil, &ErrUnsupported{"non-binary copy"}
	}
	return StmtCopy{tn, cols}, nil
}

func (p *parser) selectStmt() (Stmt, error) {
	sel := &StmtSelect{}
	if p.acceptKw("with") {
		for {
			name, err := p.ident()
			if err != nil {
				return nil, err
			}
			if err := p.expectKw("as"); err != nil {
				return nil, err
			}
			if err := p.expectSym("("); err != nil {
				return nil, err
			}
			inner, err := p.selectStmt()
			if err != nil {
				return nil, err
			}
			if err := p.expectSym(")"); err != nil {
				return nil, err
			}
			sel.With = append(sel.With, CTE{name, inner.(*StmtSelect)})
			if p.acceptSym(",") {
				continue
			}
			break
		}
	}
	if err := p.expectKw("select"); err != nil {
		return nil, err
	}
	if p.acceptKw("distinct") {
		if !p.acceptKw("on") {
			return nil, &ErrUnsupported{"select distinct (without ON)"}
		}
		if err := p.expectSym("("); err != nil {
			return nil, err
		}
		for {
			e, err := p.expr()
			if err != nil {
				return nil, err
			}
			sel.DistinctOn = append(sel.DistinctOn, e)
			if p.acceptSym(",") {
				continue
			}
			break
		}
		if err := p.expectSym(")"); err != nil {
			return nil, err
		}
	}
	if p.acceptSym("*") {
		sel.Star = true
	} else {
		for {
			e, err := p.expr()
			if err != nil {
				return nil, err
			}
			it := SelItem{E: e}
			if p.acceptKw("as") {
				a, err := p.ident()
				if err != nil {
					return nil, err
				}
				it.Alias = a
			} else if t := p.peek(); (t.kind == tIdent || t.kind == tQIdent) && !isReservedAfterExpr(t) {
				p.i++
				it.Alias = t.s
			}
			sel.List = append(sel.List, it)
			if p.acceptSym(",") {
				continue
			}
			break
		}
	}
	if p.acceptKw("from") {
		tn, err := p.tableName()
		if err != nil {
			return nil, err
		}
		// a bare (unqualified) name may refer to a CTE: keep schema "public"
		sel.From = &tn
		if p.isSym(",") || p.isKw("join") || p.isKw("left") || p.isKw("inner") {
			return nil, &ErrUnsupported{"joins"}
		}
		if t := p.peek(); t.kind == tIdent && !isReservedAfterExpr(t) {
			return nil, &ErrUnsupported{"table alias"}
		}
	}
	if p.acceptKw("where") {
		e, err := p.expr()
		if err != nil {
			return nil, err
		}
		sel.Where = e
	}
	if p.isKw("group") || p.isKw("having") || p.isKw("union") {
		return nil, &ErrUnsupported{"group by / having / union"}
	}
	if p.acceptKw("order") {
		if err := p.expectKw("by"); err != nil {
			return nil, err
		}
		for {
			e, err := p.expr()
			if err != nil {
				return nil, err
			}
			oi := OrderItem{E: e}
			if p.acceptKw("desc") {
				oi.Desc = true
			} else {
				p.acceptKw("asc")
			}
			sel.OrderBy = append(sel.OrderBy, oi)
			if p.acceptSym(",") {
				continue
			}
			break
		}
	}
	if p.acceptKw("limit") {
		e, err := p.primary()
		if err != nil {
			return nil, err
		}
		sel.Limit = e
	}
	if p.isKw("offset") || p.isKw("for") {
		return nil, &ErrUnsupported{"offset / for update"}
	}
	return sel, nil
}

func isReservedAfterExpr(t token) bool {
	if t.kind != tIdent {
		return false
	}
	switch t.s {
	case "from", "where", "order", "limit", "group", "having", "union", "and", "or", "as", "on", "asc", "desc", "join", "left", "inner", "offset", "for", "is", "not", "in", "returning", "using":
		return true
	}
	return false
}

func (p *parser) expr() (Expr, error) { return p.orExpr() }

func (p *parser) orExpr() (Expr, error) {
	l, err := p.andExpr()
	if err != nil {
		return nil, err
	}
	for p.acceptKw("or") {
		r, err := p.andExpr()
		if err != nil {
			return nil, err
		}
		l = EBin{"or", l, r}
	}
	return l, nil
}

func (p *parser) andExpr() (Expr, error) {
	l, err := p.notExpr()
	if err != nil {
		return nil, err
	}
	for p.acceptKw("and") {
		r, err := p.notExpr()
		if err != nil {
			return nil, err
		}
		l = EBin{"and", l, r}
	}
	return l, nil
}

func (p *parser) notExpr() (Expr, error) {
	if p.acceptKw("not") {
		e, err := p.notExpr()
		if err != nil {
			return nil, err
		}
		return ENot{e}, nil
	}
	return p.cmpExpr()
}

func (p *parser) cmpExpr() (Expr, error) {
	l, err := p.primary()
	if err != nil {
		return nil, err
	}
	t := p.peek()
	if t.kind == tSym {
		switch t.s {
		case "=", "<>", "!=", "<", "<=", ">", ">=":
			p.i++
			if p.isKw("any") {
				p.i++
				if err := p.expectSym("("); err != nil {
					return nil, err
				}
				arr, err := p.expr()
				if err != nil {
					return nil, err
				}
				if err := p.expectSym(")"); err != nil {
					return nil, err
				}
				if t.s != "=" {
					return nil, &ErrUnsupported{"ANY with operator " + t.s}
				}
				return EAny{l, arr}, nil
			}
			r, err := p.primary()
			if err != nil {
				return nil, err
			}
			op := t.s
			if op == "!=" {
				op = "<>"
			}
			return EBin{op, l, r}, nil
		}
	}
	if p.isKw("is") {
		p.i++
		not := p.acceptKw("not")
		if err := p.expectKw("null"); err != nil {
			return nil, err
		}
		return EIsNull{l, not}, nil
	}
	if p.isKw("in") || p.isKw("like") || p.isKw("between") {
		return nil, &ErrUnsupported{"IN / LIKE / BETWEEN"}
	}
	return l, nil
}

func (p *parser) primary() (Expr, error) {
	t := p.next()
	var e Expr
	switch t.kind {
	case tString:
		e = ELit{t.s}
	case tNumber:
		n, err := strconv.ParseInt(t.s, 10, 64)
		if err != nil {
			return nil, &ErrUnsupported{"big number literal"}
		}
		e = ELit{n}
	case tParam:
		n, _ := strconv.Atoi(t.s)
		if n < 1 {
			return nil, &ErrSyntax{"bad parameter $" + t.s}
		}
		e = EParam{n}
	case tSym:
		if t.s == "(" {
			inner, err := p.expr()
			if err != nil {
				return nil, err
			}
			if err := p.expectSym(")"); err != nil {
				return nil, err
			}
			e = inner
		} else {
			p.i--
			return nil, p.errf("unexpected symbol")
		}
	case tQIdent:
		e = p.colRef(t.s)
	case tIdent:
		switch t.s {
		case "true":
			e = ELit{true}
		case "false":
			e = ELit{false}
		case "null":
			e = ELit{nil}
		default:
			if isReservedAfterExpr(t) || t.s == "select" {
				p.i--
				return nil, p.errf("unexpected keyword")
			}
			if p.isSym("(") {
				p.i++
				f := EFunc{Name: t.s}
				if p.acceptSym("*") {
					f.Star = true
				} else if !p.isSym(")") {
					for {
						a, err := p.expr()
						if err != nil {
							return nil, err
						}
						f.Args = append(f.Args, a)
						if p.acceptSym(",") {
							continue
						}
						break
					}
				}
				if err := p.expectSym(")"); err != nil {
					return nil, err
				}
				if p.isKw("over") {
					return nil, &ErrUnsupported{"window functions"}
				}
				e = f
			} else {
				e = p.colRef(t.s)
			}
		}
	default:
		p.i--
		return nil, p.errf("unexpected end of expression")
	}
	for p.acceptSym("::") {
		tn, err := p.typeName()
		if err != nil {
			return nil, err
		}
		e = ECast{e, tn}
	}
	return e, nil
}

func (p *parser) colRef(first string) Expr {
	if p.isSym(".") {
		p.i++
		t := p.peek()
		if t.kind == tIdent || t.kind == tQIdent {
			p.i++
			// schema.table.col is not supported; table.col is
			return ECol{first, t.s}
		}
	}
	return ECol{"", first}
}
