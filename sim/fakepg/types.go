// Package fakepg is a small in-memory PostgreSQL stand-in that speaks pgwire v3
// over net.Pipe so that unmodified pgx can talk to it inside a synctest bubble.
// It interprets the SQL subset shovel issues semantically (statements are
// parsed and executed as written), keeps read-committed transactions with
// private overlays, and records every commit for the oracles.
package fakepg

import (
	"bytes"
	"fmt"
	"math/big"
	"sort"
	"strings"
	"time"
)

// OIDs of the supported types.
const (
	OIDBool        = 16
	OIDBytea       = 17
	OIDInt8        = 20
	OIDInt2        = 21
	OIDInt4        = 23
	OIDText        = 25
	OIDJSON        = 114
	OIDTextArray   = 1009
	OIDVarchar     = 1043
	OIDTimestamp   = 1114
	OIDTimestamptz = 1184
	OIDInterval    = 1186
	OIDNumeric     = 1700
	OIDJSONB       = 3802
	OIDUnknown     = 705
	OIDVoid        = 2278
	OIDInt4Array   = 1007
	OIDInt8Array   = 1016
	OIDNumArray    = 1231
	OIDByteaArray  = 1001
)

// Value is one of: nil (NULL), string, *big.Int (numeric), int64 (int2/4/8),
// []byte (bytea), bool, time.Time, Interval, JSON, []Value (array).
type Value = any

type Interval int64 // microseconds
type JSON string

func typeOID(name string) (uint32, bool) {
	switch strings.ToLower(strings.TrimSpace(name)) {
	case "text":
		return OIDText, true
	case "varchar", "character varying":
		return OIDVarchar, true
	case "numeric", "decimal":
		return OIDNumeric, true
	case "int", "integer", "int4":
		return OIDInt4, true
	case "int2", "smallint":
		return OIDInt2, true
	case "int8", "bigint":
		return OIDInt8, true
	case "bytea":
		return OIDBytea, true
	case "bool", "boolean":
		return OIDBool, true
	case "jsonb":
		return OIDJSONB, true
	case "json":
		return OIDJSON, true
	case "interval":
		return OIDInterval, true
	case "timestamptz", "timestamp with time zone":
		return OIDTimestamptz, true
	case "timestamp":
		return OIDTimestamp, true
	}
	return 0, false
}

func oidTypeName(oid uint32) string {
	switch oid {
	case OIDText:
		return "text"
	case OIDVarchar:
		return "character varying"
	case OIDNumeric:
		return "numeric"
	case OIDInt4:
		return "integer"
	case OIDInt2:
		return "smallint"
	case OIDInt8:
		return "bigint"
	case OIDBytea:
		return "bytea"
	case OIDBool:
		return "boolean"
	case OIDJSONB:
		return "jsonb"
	case OIDJSON:
		return "json"
	case OIDInterval:
		return "interval"
	case OIDTimestamptz:
		return "timestamp with time zone"
	case OIDTimestamp:
		return "timestamp without time zone"
	}
	return fmt.Sprintf("oid%d", oid)
}

func arrayOID(elem uint32) uint32 {
	switch elem {
	case OIDText, OIDVarchar:
		return OIDTextArray
	case OIDInt4, OIDInt2:
		return OIDInt4Array
	case OIDInt8:
		return OIDInt8Array
	case OIDNumeric:
		return OIDNumArray
	case OIDBytea:
		return OIDByteaArray
	}
	return OIDTextArray
}

type Column struct {
	Name       string
	OID        uint32
	DefaultNow bool
	DefaultVal Value // literal default (e.g. false), nil = none
	NotNull    bool
}

// Row is immutable once created (there is no UPDATE in the subset).
type Row struct {
	ID   uint64 // hidden identity, unique per server
	Born int    // commit sequence number that made it visible (0 = preloaded)
	Vals []Value
}

type Index struct {
	Name   string
	Cols   []int
	Unique bool
}

type Table struct {
	Schema  string
	Name    string
	Cols    []Column
	Rows    []*Row // committed rows; slice is copy-on-write
	Indexes []Index
}

func (t *Table) FullName() string { return t.Schema + "." + t.Name }

func (t *Table) Col(name string) int {
	for i := range t.Cols {
		if t.Cols[i].Name == name {
			return i
		}
	}
	return -1
}

// Snapshot is an immutable view of the committed state.
type Snapshot struct {
	Seq    int
	Tables map[string]*TableSnap // key: schema.name
}

type TableSnap struct {
	Cols []Column
	Rows []*Row
}

func (s *Snapshot) Table(full string) *TableSnap {
	if s == nil {
		return nil
	}
	return s.Tables[full]
}

func (ts *TableSnap) Col(name string) int {
	if ts == nil {
		return -1
	}
	for i := range ts.Cols {
		if ts.Cols[i].Name == name {
			return i
		}
	}
	return -1
}

// CommitInfo describes one committed transaction.
type CommitInfo struct {
	Seq      int
	Owner    string // tag of the pool/connection that committed
	ConnID   int
	Inserted map[string][]*Row // by full table name
	Deleted  map[string][]*Row
	DDL      bool
	Snap     *Snapshot
}

func (ci *CommitInfo) Empty() bool {
	for _, r := range ci.Inserted {
		if len(r) > 0 {
			return false
		}
	}
	for _, r := range ci.Deleted {
		if len(r) > 0 {
			return false
		}
	}
	return !ci.DDL
}

// CompareValues orders two non-nil values of the same family.
func CompareValues(a, b Value) (int, error) {
	switch x := a.(type) {
	case string:
		switch y := b.(type) {
		case string:
			return strings.Compare(x, y), nil
		case JSON:
			return strings.Compare(x, string(y)), nil
		}
	case JSON:
		if y, ok := b.(JSON); ok {
			return strings.Compare(string(x), string(y)), nil
		}
	case *big.Int:
		switch y := b.(type) {
		case *big.Int:
			return x.Cmp(y), nil
		case int64:
			return x.Cmp(big.NewInt(y)), nil
		}
	case int64:
		switch y := b.(type) {
		case int64:
			switch {
			case x < y:
				return -1, nil
			case x > y:
				return 1, nil
			}
			return 0, nil
		case *big.Int:
			return big.NewInt(x).Cmp(y), nil
		}
	case []byte:
		if y, ok := b.([]byte); ok {
			return bytes.Compare(x, y), nil
		}
	case bool:
		if y, ok := b.(bool); ok {
			switch {
			case x == y:
				return 0, nil
			case !x:
				return -1, nil
			}
			return 1, nil
		}
	case time.Time:
		if y, ok := b.(time.Time); ok {
			return x.Compare(y), nil
		}
	case Interval:
		if y, ok := b.(Interval); ok {
			switch {
			case x < y:
				return -1, nil
			case x > y:
				return 1, nil
			}
			return 0, nil
		}
	}
	return 0, fmt.Errorf("cannot compare %T with %T", a, b)
}

// FormatValue renders a value canonically (used by oracles and text output).
func FormatValue(v Value) string {
	switch x := v.(type) {
	case nil:
		return "NULL"
	case string:
		return "'" + x + "'"
	case JSON:
		return "json:" + string(x)
	case *big.Int:
		return x.String()
	case int64:
		return fmt.Sprintf("%d", x)
	case []byte:
		return fmt.Sprintf("\\x%x", x)
	case bool:
		if x {
			return "t"
		}
		return "f"
	case time.Time:
		return x.UTC().Format(time.RFC3339Nano)
	case Interval:
		return fmt.Sprintf("%dus", int64(x))
	case []Value:
		var parts []string
		for _, e := range x {
			parts = append(parts, FormatValue(e))
		}
		return "{" + strings.Join(parts, ",") + "}"
	}
	return fmt.Sprintf("?%T", v)
}

// FormatRow renders name=value pairs sorted by column name.
func FormatRow(cols []Column, r *Row, skip map[string]bool) string {
	var parts []string
	for i, c := range cols {
		if skip[c.Name] {
			continue
		}
		var v Value
		if i < len(r.Vals) {
			v = r.Vals[i]
		}
		parts = append(parts, c.Name+"="+FormatValue(v))
	}
	sort.Strings(parts)
	return strings.Join(parts, " ")
}

// valInt64 reads an integer value of any of the integer representations.
func valInt64(v Value) (int64, bool) {
	switch x := v.(type) {
	case int64:
		return x, true
	case *big.Int:
		if x.IsInt64() {
			return x.Int64(), true
		}
	case string:
		var n int64
		if _, err := fmt.Sscanf(x, "%d", &n); err == nil {
			return n, true
		}
	}
	return 0, false
}
