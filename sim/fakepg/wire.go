package fakepg

import (
	"encoding/binary"
	"errors"
	"fmt"
	"math/big"
	"net"
	"strings"
	"sync"
	"time"

	"github.com/jackc/pgx/v5/pgproto3"
	"github.com/jackc/pgx/v5/pgtype"
)

// Verdict is the simulator's decision for one parked frontend group.
type Verdict int

const (
	Exec       Verdict = iota // execute and reply
	ErrReply                  // reply with an ErrorResponse instead of executing
	DropBefore                // close the connection before executing
	DropAfter                 // execute, then close the connection without replying
)

// Event describes one complete frontend group parked at the seam.
type Event struct {
	ConnID int
	Owner  string
	Kind   string // "query" | "sync" | "copy"
	Class  string // canonical, id-free description used for scheduling keys
	SQL    []string
	InTx   bool
}

// Gate blocks until the simulator decides what happens to ev. code is the
// SQLSTATE for ErrReply.
type Gate func(ev *Event) (v Verdict, code string)

// Server owns the database and all sessions.
type Server struct {
	DB   *DB
	Gate Gate // nil: execute immediately

	mu       sync.Mutex
	nextConn int
	conns    map[int]*session
	Down     bool // outage: dials fail

	// Every SQL text received (simple Query and Parse), in arrival order.
	SQLLog []SQLEntry
	// Unsupported is set when a statement outside the subset was received.
	Unsupported error

	// OnSQL is called for each SQL text before parsing (C15 marker scan).
	OnSQL func(owner, kind, sql string)
	// OnExecute is called for every statement executed through the extended
	// protocol, with its bound parameters and whether the session is inside
	// an explicit transaction.
	OnExecute func(connID int, owner, sql string, params []Value, tx *Tx)

	tm *pgtype.Map
}

type SQLEntry struct {
	Owner string
	Kind  string // "query" | "parse"
	SQL   string
}

func NewServer() *Server {
	return &Server{DB: NewDB(), conns: map[int]*session{}, tm: pgtype.NewMap()}
}

// Dial returns the client end of a new connection owned by owner.
func (s *Server) Dial(owner string) (net.Conn, error) {
	s.mu.Lock()
	if s.Down {
		s.mu.Unlock()
		return nil, errors.New("dial tcp: connection refused (simulated outage)")
	}
	s.nextConn++
	id := s.nextConn
	c, srv := BufPipe()
	se := &session{srv: s, id: id, owner: owner, conn: srv, tm: pgtype.NewMap(), be: pgproto3.NewBackend(srv, srv),
		stmts: map[string]*Prepared{}, portals: map[string]*portal{}}
	s.conns[id] = se
	s.mu.Unlock()
	go se.run()
	return c, nil
}

// CloseOwner closes every connection dialled with the given owner tag
// (process death of that owner). Returns the number closed.
func (s *Server) CloseOwner(owner string) int {
	s.mu.Lock()
	var list []*session
	for _, se := range s.conns {
		if se.owner == owner {
			list = append(list, se)
		}
	}
	s.mu.Unlock()
	for _, se := range list {
		se.kill()
	}
	return len(list)
}

// CloseAll closes every connection.
func (s *Server) CloseAll() {
	s.mu.Lock()
	var list []*session
	for _, se := range s.conns {
		list = append(list, se)
	}
	s.mu.Unlock()
	for _, se := range list {
		se.kill()
	}
}

// OpenTxOwners lists owners with an open transaction (for oracles).
// OpenTxs returns the open explicit transactions (identity is the pointer).
func (s *Server) OpenTxs() map[*Tx]int {
	s.mu.Lock()
	defer s.mu.Unlock()
	out := map[*Tx]int{}
	for id, se := range s.conns {
		if se.tx != nil {
			out[se.tx] = id
		}
	}
	return out
}

func (s *Server) OpenTx() []string {
	s.mu.Lock()
	defer s.mu.Unlock()
	var out []string
	for _, se := range s.conns {
		if se.tx != nil {
			out = append(out, se.owner)
		}
	}
	return out
}

type portal struct {
	p       *Prepared
	params  []Value
	formats []int16
}

type session struct {
	srv   *Server
	id    int
	owner string
	conn  net.Conn
	be    *pgproto3.Backend

	tx     *Tx // explicit transaction, nil when idle
	failed bool

	stmts   map[string]*Prepared
	portals map[string]*portal
	killed  bool
	tm      *pgtype.Map // per session: pgtype.Map caches plans in unguarded maps
}

func (se *session) kill() {
	se.srv.mu.Lock()
	se.killed = true
	se.srv.mu.Unlock()
	se.conn.Close()
}

func (se *session) isKilled() bool {
	se.srv.mu.Lock()
	defer se.srv.mu.Unlock()
	return se.killed
}

func (se *session) txStatus() byte {
	switch {
	case se.tx == nil:
		return 'I'
	case se.failed:
		return 'E'
	}
	return 'T'
}

func (se *session) cleanup() {
	// connection loss: open transaction is rolled back (overlay discarded)
	se.srv.mu.Lock()
	se.tx = nil
	delete(se.srv.conns, se.id)
	se.srv.mu.Unlock()
	se.conn.Close()
}

func (se *session) send(msgs ...pgproto3.BackendMessage) error {
	for _, m := range msgs {
		se.be.Send(m)
	}
	return se.be.Flush()
}

func (se *session) ready() error {
	return se.send(&pgproto3.ReadyForQuery{TxStatus: se.txStatus()})
}

func errResp(err error) *pgproto3.ErrorResponse {
	var pe *PGError
	var se *ErrSyntax
	switch {
	case errors.As(err, &pe):
		return &pgproto3.ErrorResponse{Severity: "ERROR", SeverityUnlocalized: "ERROR", Code: pe.Code, Message: pe.Msg}
	case errors.As(err, &se):
		return &pgproto3.ErrorResponse{Severity: "ERROR", SeverityUnlocalized: "ERROR", Code: "42601", Message: se.Msg}
	}
	return &pgproto3.ErrorResponse{Severity: "ERROR", SeverityUnlocalized: "ERROR", Code: "XX000", Message: err.Error()}
}

func (se *session) noteUnsupported(err error) {
	var ue *ErrUnsupported
	if errors.As(err, &ue) {
		se.srv.mu.Lock()
		if se.srv.Unsupported == nil {
			se.srv.Unsupported = err
		}
		se.srv.mu.Unlock()
	}
}

func (se *session) logSQL(kind, sql string) {
	se.srv.mu.Lock()
	se.srv.SQLLog = append(se.srv.SQLLog, SQLEntry{se.owner, kind, sql})
	f := se.srv.OnSQL
	se.srv.mu.Unlock()
	if f != nil {
		f(se.owner, kind, sql)
	}
}

func classify(sql string) string {
	s := strings.Join(strings.Fields(strings.ToLower(sql)), " ")
	s = strings.TrimSuffix(s, ";")
	if len(s) > 60 {
		s = s[:60]
	}
	return s
}

func (se *session) gate(kind string, sqls []string) (Verdict, string) {
	g := se.srv.Gate
	if g == nil {
		return Exec, ""
	}
	var cls []string
	for _, q := range sqls {
		cls = append(cls, classify(q))
	}
	return g(&Event{ConnID: se.id, Owner: se.owner, Kind: kind, Class: strings.Join(cls, " | "), SQL: sqls, InTx: se.tx != nil})
}

func (se *session) run() {
	defer se.cleanup()
	for {
		msg, err := se.be.ReceiveStartupMessage()
		if err != nil {
			return
		}
		switch msg.(type) {
		case *pgproto3.SSLRequest, *pgproto3.GSSEncRequest:
			if _, err := se.conn.Write([]byte{'N'}); err != nil {
				return
			}
			continue
		case *pgproto3.StartupMessage:
		default:
			return
		}
		break
	}
	err := se.send(
		&pgproto3.AuthenticationOk{},
		&pgproto3.ParameterStatus{Name: "server_version", Value: "14.2"},
		&pgproto3.ParameterStatus{Name: "client_encoding", Value: "UTF8"},
		&pgproto3.ParameterStatus{Name: "standard_conforming_strings", Value: "on"},
		&pgproto3.ParameterStatus{Name: "integer_datetimes", Value: "on"},
		&pgproto3.ParameterStatus{Name: "DateStyle", Value: "ISO, MDY"},
		&pgproto3.ParameterStatus{Name: "TimeZone", Value: "UTC"},
		&pgproto3.BackendKeyData{ProcessID: uint32(se.id), SecretKey: 1},
		&pgproto3.ReadyForQuery{TxStatus: 'I'},
	)
	if err != nil {
		return
	}
	type extMsg struct {
		kind byte // 'P' parse 'D' describe 'B' bind 'E' execute 'C' close
		name string
		sql  string
		objT byte
		stmt string
		prm  [][]byte
		pfmt []int16
		rfmt []int16
	}
	var batch []extMsg
	for {
		msg, err := se.be.Receive()
		if err != nil {
			return
		}
		switch m := msg.(type) {
		case *pgproto3.Terminate:
			return
		case *pgproto3.Query:
			sql := m.String
			se.logSQL("query", sql)
			v, code := se.gate("query", []string{sql})
			if v == DropBefore || se.isKilled() {
				return
			}
			if v == ErrReply {
				if se.tx != nil {
					se.failed = true
				}
				if se.send(&pgproto3.ErrorResponse{Severity: "ERROR", SeverityUnlocalized: "ERROR", Code: code, Message: "simulated failure"}) != nil || se.ready() != nil {
					return
				}
				continue
			}
			ok := se.simpleQuery(sql, v == DropAfter)
			if !ok || v == DropAfter {
				return
			}
		case *pgproto3.Parse:
			batch = append(batch, extMsg{kind: 'P', name: m.Name, sql: m.Query})
			se.logSQL("parse", m.Query)
		case *pgproto3.Describe:
			batch = append(batch, extMsg{kind: 'D', objT: m.ObjectType, name: m.Name})
		case *pgproto3.Bind:
			em := extMsg{kind: 'B', name: m.DestinationPortal, stmt: m.PreparedStatement}
			for _, p := range m.Parameters {
				if p == nil {
					em.prm = append(em.prm, nil)
				} else {
					em.prm = append(em.prm, append([]byte{}, p...))
				}
			}
			em.pfmt = append(em.pfmt, m.ParameterFormatCodes...)
			em.rfmt = append(em.rfmt, m.ResultFormatCodes...)
			batch = append(batch, em)
		case *pgproto3.Execute:
			batch = append(batch, extMsg{kind: 'E', name: m.Portal})
		case *pgproto3.Close:
			batch = append(batch, extMsg{kind: 'C', objT: m.ObjectType, name: m.Name})
		case *pgproto3.Flush:
		case *pgproto3.Sync:
			var sqls []string
			for _, em := range batch {
				switch em.kind {
				case 'P':
					sqls = append(sqls, "parse: "+em.sql)
				case 'B':
					if p, ok := se.stmts[em.stmt]; ok {
						sqls = append(sqls, "exec: "+p.SQL)
					} else {
						for _, b2 := range batch {
							if b2.kind == 'P' && b2.name == em.stmt {
								sqls = append(sqls, "exec: "+b2.sql)
							}
						}
					}
				}
			}
			if len(sqls) == 0 {
				sqls = []string{"sync"}
			}
			v, code := se.gate("sync", sqls)
			if v == DropBefore || se.isKilled() {
				return
			}
			failed := false
			var out []pgproto3.BackendMessage
			if v == ErrReply {
				failed = true
				out = append(out, &pgproto3.ErrorResponse{Severity: "ERROR", SeverityUnlocalized: "ERROR", Code: code, Message: "simulated failure"})
				if se.tx != nil {
					se.failed = true
				}
			}
			for _, em := range batch {
				if failed {
					break
				}
				var err error
				switch em.kind {
				case 'P':
					err = se.doParse(em.name, em.sql)
					if err == nil {
						out = append(out, &pgproto3.ParseComplete{})
					}
				case 'D':
					var msgs []pgproto3.BackendMessage
					msgs, err = se.doDescribe(em.objT, em.name)
					out = append(out, msgs...)
				case 'B':
					err = se.doBind(em.name, em.stmt, em.prm, em.pfmt, em.rfmt)
					if err == nil {
						out = append(out, &pgproto3.BindComplete{})
					}
				case 'E':
					var msgs []pgproto3.BackendMessage
					msgs, err = se.doExecute(em.name)
					out = append(out, msgs...)
				case 'C':
					if em.objT == 'S' {
						delete(se.stmts, em.name)
					} else {
						delete(se.portals, em.name)
					}
					out = append(out, &pgproto3.CloseComplete{})
				}
				if err != nil {
					se.noteUnsupported(err)
					failed = true
					if se.tx != nil {
						se.failed = true
					}
					out = append(out, errResp(err))
				}
			}
			batch = batch[:0]
			// unnamed portal does not survive the sync
			delete(se.portals, "")
			if v == DropAfter {
				return
			}
			out = append(out, &pgproto3.ReadyForQuery{TxStatus: se.txStatus()})
			if se.send(out...) != nil {
				return
			}
		case *pgproto3.CopyData, *pgproto3.CopyDone, *pgproto3.CopyFail:
			// stray copy message outside copy mode: ignore (as PostgreSQL does)
		default:
			return
		}
	}
}

// withTx runs f in the session's transaction or in an autocommit one.
func (se *session) withTx(f func(tx *Tx) error) error {
	db := se.srv.DB
	db.mu.Lock()
	defer db.mu.Unlock()
	if se.tx != nil {
		if se.failed {
			return pgErr("25P02", "current transaction is aborted, commands ignored until end of transaction block")
		}
		err := f(se.tx)
		if err != nil {
			se.failed = true
		}
		return err
	}
	tx := db.newTx(se.owner, se.id)
	if err := f(tx); err != nil {
		return err
	}
	return tx.commit()
}

func (se *session) txControl(stmt Stmt) (string, error, bool) {
	db := se.srv.DB
	switch st := stmt.(type) {
	case StmtBegin:
		db.mu.Lock()
		if se.tx == nil {
			se.tx = db.newTx(se.owner, se.id)
			se.failed = false
		}
		db.mu.Unlock()
		return "BEGIN", nil, true
	case StmtCommit:
		db.mu.Lock()
		defer db.mu.Unlock()
		if se.tx == nil {
			return "COMMIT", nil, true
		}
		tx := se.tx
		se.tx = nil
		if se.failed {
			se.failed = false
			return "ROLLBACK", nil, true
		}
		if err := tx.commit(); err != nil {
			return "", err, true
		}
		return "COMMIT", nil, true
	case StmtRollback:
		db.mu.Lock()
		se.tx = nil
		se.failed = false
		db.mu.Unlock()
		return "ROLLBACK", nil, true
	case StmtSavepoint:
		db.mu.Lock()
		defer db.mu.Unlock()
		if se.tx == nil {
			return "", pgErr("25P01", "SAVEPOINT can only be used in transaction blocks"), true
		}
		if se.failed {
			return "", pgErr("25P02", "current transaction is aborted, commands ignored until end of transaction block"), true
		}
		se.tx.savepoint(st.Name)
		return "SAVEPOINT", nil, true
	case StmtRollbackTo:
		db.mu.Lock()
		defer db.mu.Unlock()
		if se.tx == nil {
			return "", pgErr("25P01", "ROLLBACK TO SAVEPOINT can only be used in transaction blocks"), true
		}
		if !se.tx.rollbackTo(st.Name) {
			return "", pgErr("3B001", "savepoint %q does not exist", st.Name), true
		}
		// rolling back to a savepoint ends the aborted state
		se.failed = false
		return "ROLLBACK", nil, true
	case StmtRelease:
		db.mu.Lock()
		defer db.mu.Unlock()
		if se.tx == nil {
			return "", pgErr("25P01", "RELEASE SAVEPOINT can only be used in transaction blocks"), true
		}
		if se.failed {
			return "", pgErr("25P02", "current transaction is aborted, commands ignored until end of transaction block"), true
		}
		if !se.tx.release(st.Name) {
			return "", pgErr("3B001", "savepoint %q does not exist", st.Name), true
		}
		return "RELEASE", nil, true
	}
	return "", nil, false
}

// simpleQuery handles the simple protocol. Returns false if the connection
// should be closed. With silent set nothing is written (lost acknowledgement).
func (se *session) simpleQuery(sql string, silent bool) bool {
	send := func(msgs ...pgproto3.BackendMessage) bool {
		if silent {
			return true
		}
		return se.send(msgs...) == nil
	}
	stmts, err := ParseSQL(sql)
	if err != nil {
		se.noteUnsupported(err)
		if se.tx != nil {
			se.failed = true
		}
		return send(errResp(err), &pgproto3.ReadyForQuery{TxStatus: se.txStatus()})
	}
	if len(stmts) == 0 {
		return send(&pgproto3.EmptyQueryResponse{}, &pgproto3.ReadyForQuery{TxStatus: se.txStatus()})
	}
	for _, st := range stmts {
		if tag, err, ok := se.txControl(st); ok {
			if err != nil {
				return send(errResp(err), &pgproto3.ReadyForQuery{TxStatus: se.txStatus()})
			}
			if !send(&pgproto3.CommandComplete{CommandTag: []byte(tag)}) {
				return false
			}
			continue
		}
		if cp, ok := st.(StmtCopy); ok {
			if silent {
				return false
			}
			alive, failed := se.copyIn(cp)
			if !alive {
				return false
			}
			if failed {
				return send(&pgproto3.ReadyForQuery{TxStatus: se.txStatus()})
			}
			continue
		}
		var res *ExecResult
		err := se.withTx(func(tx *Tx) error {
			var e error
			res, e = tx.execStmt(st, nil)
			return e
		})
		if err != nil {
			se.noteUnsupported(err)
			return send(errResp(err), &pgproto3.ReadyForQuery{TxStatus: se.txStatus()})
		}
		if res.Cols != nil {
			formats := make([]int16, len(res.Cols))
			rd := se.rowDesc(res.Cols, formats)
			if !send(rd) {
				return false
			}
			for _, r := range res.Rows {
				dr, err := se.dataRow(res.Cols, formats, r)
				if err != nil {
					return send(errResp(err), &pgproto3.ReadyForQuery{TxStatus: se.txStatus()})
				}
				if !send(dr) {
					return false
				}
			}
		}
		if !send(&pgproto3.CommandComplete{CommandTag: []byte(res.Tag)}) {
			return false
		}
	}
	return send(&pgproto3.ReadyForQuery{TxStatus: se.txStatus()})
}

func (se *session) rowDesc(cols []ResultCol, formats []int16) *pgproto3.RowDescription {
	rd := &pgproto3.RowDescription{}
	for i, c := range cols {
		f := int16(0)
		if i < len(formats) {
			f = formats[i]
		}
		oid := c.OID
		rd.Fields = append(rd.Fields, pgproto3.FieldDescription{Name: []byte(c.Name), DataTypeOID: oid, DataTypeSize: -1, TypeModifier: -1, Format: f})
	}
	return rd
}

func (se *session) dataRow(cols []ResultCol, formats []int16, row []Value) (*pgproto3.DataRow, error) {
	dr := &pgproto3.DataRow{}
	for i, v := range row {
		if v == nil {
			dr.Values = append(dr.Values, nil)
			continue
		}
		f := int16(0)
		if i < len(formats) {
			f = formats[i]
		}
		b, err := se.encode(cols[i].OID, f, v)
		if err != nil {
			return nil, err
		}
		dr.Values = append(dr.Values, b)
	}
	return dr, nil
}

func (se *session) encode(oid uint32, format int16, v Value) ([]byte, error) {
	var arg any
	switch x := v.(type) {
	case string:
		arg = x
	case JSON:
		if format == 0 || oid == OIDJSON {
			return []byte(x), nil
		}
		if oid == OIDJSONB {
			return append([]byte{1}, []byte(x)...), nil
		}
		arg = string(x)
	case *big.Int:
		if oid == OIDNumeric {
			arg = pgtype.Numeric{Int: new(big.Int).Set(x), Valid: true}
		} else {
			arg = x.Int64()
		}
	case int64:
		if oid == OIDNumeric {
			arg = pgtype.Numeric{Int: big.NewInt(x), Valid: true}
		} else {
			arg = x
		}
	case []byte:
		arg = x
	case bool:
		arg = x
	case time.Time:
		arg = x
	case Interval:
		arg = pgtype.Interval{Microseconds: int64(x), Valid: true}
	case []Value:
		var ss []string
		for _, e := range x {
			ss = append(ss, fmt.Sprint(e))
		}
		arg = ss
	default:
		return nil, pgErr("XX000", "cannot encode %T", v)
	}
	if oid == OIDVoid {
		return []byte{}, nil
	}
	b, err := se.tm.Encode(oid, format, arg, nil)
	if err != nil {
		return nil, pgErr("XX000", "encode oid %d: %v", oid, err)
	}
	if b == nil {
		b = []byte{}
	}
	return b, nil
}

// decode turns a wire value into a Value by type.
func (se *session) decode(oid uint32, format int16, src []byte) (Value, error) {
	if src == nil {
		return nil, nil
	}
	tm := se.tm
	bad := func(err error) error {
		return pgErr("22P03", "incorrect binary data format / invalid input for %s: %v", oidTypeName(oid), err)
	}
	switch oid {
	case OIDText, OIDVarchar, OIDUnknown:
		return string(src), nil
	case OIDBytea:
		if format == 1 {
			return append([]byte{}, src...), nil
		}
		var b []byte
		if err := tm.Scan(oid, format, src, &b); err != nil {
			return nil, bad(err)
		}
		return b, nil
	case OIDNumeric:
		var n pgtype.Numeric
		if err := tm.Scan(oid, format, src, &n); err != nil {
			return nil, bad(err)
		}
		if !n.Valid {
			return nil, nil
		}
		if n.NaN || n.InfinityModifier != 0 {
			return nil, &ErrUnsupported{"numeric NaN/Inf"}
		}
		v := new(big.Int).Set(n.Int)
		if n.Exp > 0 {
			v.Mul(v, new(big.Int).Exp(big.NewInt(10), big.NewInt(int64(n.Exp)), nil))
		} else if n.Exp < 0 {
			d := new(big.Int).Exp(big.NewInt(10), big.NewInt(int64(-n.Exp)), nil)
			q, r := new(big.Int).QuoRem(v, d, new(big.Int))
			if r.Sign() != 0 {
				return nil, &ErrUnsupported{"fractional numeric"}
			}
			v = q
		}
		return v, nil
	case OIDInt2, OIDInt4, OIDInt8:
		var n int64
		if err := tm.Scan(oid, format, src, &n); err != nil {
			return nil, bad(err)
		}
		return n, nil
	case OIDBool:
		var b bool
		if err := tm.Scan(oid, format, src, &b); err != nil {
			return nil, bad(err)
		}
		return b, nil
	case OIDJSONB:
		if format == 1 {
			if len(src) == 0 || src[0] != 1 {
				return nil, bad(errors.New("unsupported jsonb version"))
			}
			return JSON(string(src[1:])), nil
		}
		return JSON(string(src)), nil
	case OIDJSON:
		return JSON(string(src)), nil
	case OIDInterval:
		var iv pgtype.Interval
		if err := tm.Scan(oid, format, src, &iv); err != nil {
			return nil, bad(err)
		}
		return Interval(iv.Microseconds + int64(iv.Days)*86400e6 + int64(iv.Months)*30*86400e6), nil
	case OIDTimestamptz, OIDTimestamp:
		var t time.Time
		if err := tm.Scan(oid, format, src, &t); err != nil {
			return nil, bad(err)
		}
		return t, nil
	case OIDTextArray:
		var ss []*string
		if err := tm.Scan(oid, format, src, &ss); err != nil {
			return nil, bad(err)
		}
		out := make([]Value, len(ss))
		for i, s := range ss {
			if s != nil {
				out[i] = *s
			}
		}
		return out, nil
	case OIDInt4Array, OIDInt8Array:
		var ns []*int64
		if err := tm.Scan(oid, format, src, &ns); err != nil {
			return nil, bad(err)
		}
		out := make([]Value, len(ns))
		for i, n := range ns {
			if n != nil {
				out[i] = *n
			}
		}
		return out, nil
	}
	return nil, &ErrUnsupported{fmt.Sprintf("decode oid %d", oid)}
}

func (se *session) doParse(name, sql string) error {
	stmts, err := ParseSQL(sql)
	if err != nil {
		return err
	}
	if len(stmts) != 1 {
		if len(stmts) == 0 {
			return &ErrUnsupported{"empty prepared statement"}
		}
		return pgErr("42601", "cannot insert multiple commands into a prepared statement")
	}
	db := se.srv.DB
	db.mu.Lock()
	p, err := db.Prepare(sql, stmts[0])
	db.mu.Unlock()
	if err != nil {
		return err
	}
	se.stmts[name] = p
	return nil
}

func (se *session) doDescribe(objT byte, name string) ([]pgproto3.BackendMessage, error) {
	switch objT {
	case 'S':
		p, ok := se.stmts[name]
		if !ok {
			return nil, pgErr("26000", "prepared statement %q does not exist", name)
		}
		out := []pgproto3.BackendMessage{&pgproto3.ParameterDescription{ParameterOIDs: append([]uint32{}, p.ParamOIDs...)}}
		if p.Cols == nil {
			out = append(out, &pgproto3.NoData{})
		} else {
			out = append(out, se.rowDesc(p.Cols, nil))
		}
		return out, nil
	case 'P':
		po, ok := se.portals[name]
		if !ok {
			return nil, pgErr("34000", "portal %q does not exist", name)
		}
		if po.p.Cols == nil {
			return []pgproto3.BackendMessage{&pgproto3.NoData{}}, nil
		}
		return []pgproto3.BackendMessage{se.rowDesc(po.p.Cols, po.formats)}, nil
	}
	return nil, pgErr("08P01", "bad describe")
}

func (se *session) doBind(portalName, stmtName string, prm [][]byte, pfmt, rfmt []int16) error {
	p, ok := se.stmts[stmtName]
	if !ok {
		return pgErr("26000", "prepared statement %q does not exist", stmtName)
	}
	if len(prm) != len(p.ParamOIDs) {
		return pgErr("08P01", "bind message supplies %d parameters, but prepared statement requires %d", len(prm), len(p.ParamOIDs))
	}
	po := &portal{p: p}
	for i, raw := range prm {
		f := int16(0)
		switch {
		case len(pfmt) == 1:
			f = pfmt[0]
		case i < len(pfmt):
			f = pfmt[i]
		}
		v, err := se.decode(p.ParamOIDs[i], f, raw)
		if err != nil {
			return err
		}
		po.params = append(po.params, v)
	}
	po.formats = make([]int16, len(p.Cols))
	for i := range po.formats {
		switch {
		case len(rfmt) == 1:
			po.formats[i] = rfmt[0]
		case i < len(rfmt):
			po.formats[i] = rfmt[i]
		}
	}
	se.portals[portalName] = po
	return nil
}

func (se *session) doExecute(portalName string) ([]pgproto3.BackendMessage, error) {
	po, ok := se.portals[portalName]
	if !ok {
		return nil, pgErr("34000", "portal %q does not exist", portalName)
	}
	if tag, err, ok := se.txControl(po.p.Stmt); ok {
		if err != nil {
			return nil, err
		}
		return []pgproto3.BackendMessage{&pgproto3.CommandComplete{CommandTag: []byte(tag)}}, nil
	}
	if _, ok := po.p.Stmt.(StmtCopy); ok {
		return nil, &ErrUnsupported{"COPY through the extended protocol"}
	}
	if f := se.srv.OnExecute; f != nil {
		f(se.id, se.owner, po.p.SQL, po.params, se.tx)
	}
	var res *ExecResult
	err := se.withTx(func(tx *Tx) error {
		var e error
		res, e = tx.execStmt(po.p.Stmt, po.params)
		return e
	})
	if err != nil {
		return nil, err
	}
	var out []pgproto3.BackendMessage
	if res.Cols != nil {
		for _, r := range res.Rows {
			dr, err := se.dataRow(res.Cols, po.formats, r)
			if err != nil {
				return nil, err
			}
			out = append(out, dr)
		}
	}
	out = append(out, &pgproto3.CommandComplete{CommandTag: []byte(res.Tag)})
	return out, nil
}

// copyIn serves COPY ... FROM STDIN BINARY. The stream is parked a second time
// after CopyDone (before the rows are applied).
func (se *session) copyIn(cp StmtCopy) (alive, failed bool) {
	db := se.srv.DB
	db.mu.Lock()
	t, err := db.table(cp.Table)
	var oids []uint32
	if err == nil {
		cols := cp.Cols
		if len(cols) == 0 {
			for _, c := range t.Cols {
				cols = append(cols, c.Name)
			}
			cp.Cols = cols
		}
		for _, cn := range cols {
			ci := t.Col(cn)
			if ci < 0 {
				err = pgErr("42703", "column %q of relation %q does not exist", cn, t.Name)
				break
			}
			oids = append(oids, t.Cols[ci].OID)
		}
	}
	if err == nil && se.tx != nil && se.failed {
		err = pgErr("25P02", "current transaction is aborted, commands ignored until end of transaction block")
	}
	db.mu.Unlock()
	if err != nil {
		if se.tx != nil {
			se.failed = true
		}
		return se.send(errResp(err)) == nil, true
	}
	// The verdict for the data phase is decided now, before CopyInResponse:
	// pgx holds a sync.Mutex across its background read while it waits for the
	// server's answer to CopyDone, so the session must not park at that point
	// (a goroutine blocked on a mutex is not durably blocked for synctest).
	// No state changes between here and CopyDone, so deciding early is
	// equivalent to deciding then.
	v, code := se.gate("copy", []string{"copydone " + cp.Table.Schema + "." + cp.Table.Name})
	if v == DropBefore && len(oids) == 0 {
		return false, false
	}
	fm := make([]uint16, len(oids))
	for i := range fm {
		fm[i] = 1
	}
	if se.send(&pgproto3.CopyInResponse{OverallFormat: 1, ColumnFormatCodes: fm}) != nil {
		return false, false
	}
	var buf []byte
	failMsg := ""
loop:
	for {
		msg, err := se.be.Receive()
		if err != nil {
			return false, false
		}
		switch m := msg.(type) {
		case *pgproto3.CopyData:
			buf = append(buf, m.Data...)
		case *pgproto3.CopyDone:
			break loop
		case *pgproto3.CopyFail:
			failMsg = m.Message
			break loop
		case *pgproto3.Flush, *pgproto3.Sync:
		default:
			return false, false
		}
	}
	if failMsg != "" {
		if se.tx != nil {
			se.failed = true
		}
		return se.send(errResp(pgErr("57014", "COPY from stdin failed: %s", failMsg))) == nil, true
	}
	if v == DropBefore || se.isKilled() {
		return false, false
	}
	if v == ErrReply {
		if se.tx != nil {
			se.failed = true
		}
		return se.send(&pgproto3.ErrorResponse{Severity: "ERROR", SeverityUnlocalized: "ERROR", Code: code, Message: "simulated failure"}) == nil, true
	}
	rows, err := se.parseCopy(buf, oids)
	n := 0
	if err == nil {
		err = se.withTx(func(tx *Tx) error {
			var e error
			n, e = tx.copyRows(cp, rows)
			return e
		})
	}
	if v == DropAfter {
		return false, false
	}
	if err != nil {
		se.noteUnsupported(err)
		if se.tx != nil {
			se.failed = true
		}
		return se.send(errResp(err)) == nil, true
	}
	return se.send(&pgproto3.CommandComplete{CommandTag: []byte(fmt.Sprintf("COPY %d", n))}) == nil, false
}

var copySig = []byte("PGCOPY\n\377\r\n\000")

func (se *session) parseCopy(buf []byte, oids []uint32) ([][]Value, error) {
	if len(buf) < 19 || string(buf[:11]) != string(copySig) {
		return nil, pgErr("22P04", "COPY file signature not recognized")
	}
	ext := int(binary.BigEndian.Uint32(buf[15:19]))
	pos := 19 + ext
	var rows [][]Value
	for pos < len(buf) {
		if pos+2 > len(buf) {
			return nil, pgErr("22P04", "unexpected EOF in COPY data")
		}
		nf := int16(binary.BigEndian.Uint16(buf[pos:]))
		pos += 2
		if nf == -1 {
			break
		}
		if int(nf) != len(oids) {
			return nil, pgErr("22P04", "row field count is %d, expected %d", nf, len(oids))
		}
		row := make([]Value, nf)
		for i := 0; i < int(nf); i++ {
			if pos+4 > len(buf) {
				return nil, pgErr("22P04", "unexpected EOF in COPY data")
			}
			l := int32(binary.BigEndian.Uint32(buf[pos:]))
			pos += 4
			if l < 0 {
				continue
			}
			if pos+int(l) > len(buf) {
				return nil, pgErr("22P04", "unexpected EOF in COPY data")
			}
			v, err := se.decode(oids[i], 1, buf[pos:pos+int(l)])
			if err != nil {
				return nil, err
			}
			row[i] = v
			pos += int(l)
		}
		rows = append(rows, row)
	}
	return rows, nil
}
