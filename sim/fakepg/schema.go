package fakepg

import (
	"fmt"
	"strings"
)

// InstallSchema executes the given schema script natively, skipping what the
// subset does not model: the `do $$ ... $$` migration block and views.
func (s *Server) InstallSchema(schema string) error {
	// remove do-blocks
	for {
		i := strings.Index(schema, "do $$")
		if i < 0 {
			break
		}
		j := strings.Index(schema[i+5:], "$$;")
		if j < 0 {
			return fmt.Errorf("unterminated do block")
		}
		schema = schema[:i] + schema[i+5+j+3:]
	}
	var keep []string
	for _, st := range strings.Split(schema, ";") {
		// strip comment lines
		var lines []string
		for _, l := range strings.Split(st, "\n") {
			if strings.HasPrefix(strings.TrimSpace(l), "--") {
				continue
			}
			lines = append(lines, l)
		}
		st = strings.Join(lines, "\n")
		low := strings.ToLower(strings.Join(strings.Fields(st), " "))
		if low == "" || strings.HasPrefix(low, "create or replace view") || strings.HasPrefix(low, "drop view") {
			continue
		}
		keep = append(keep, st)
	}
	db := s.DB
	db.mu.Lock()
	defer db.mu.Unlock()
	tx := db.newTx("schema", 0)
	for _, st := range keep {
		stmts, err := ParseSQL(st)
		if err != nil {
			return fmt.Errorf("schema stmt %q: %w", st, err)
		}
		for _, s := range stmts {
			if _, err := tx.execStmt(s, nil); err != nil {
				return fmt.Errorf("schema stmt %q: %w", st, err)
			}
		}
	}
	return tx.commit()
}
