package fakepg

import (
	"context"
	"net"
	"testing"
	"testing/synctest"
	"time"

	"github.com/indexsupply/shovel/shovel"
	"github.com/jackc/pgx/v5"
	"github.com/jackc/pgx/v5/pgxpool"
)

func NewPool(t testing.TB, s *Server, owner string) *pgxpool.Pool {
	cfg, err := pgxpool.ParseConfig("postgres://u:p@fake:5432/shovel?sslmode=disable")
	if err != nil {
		t.Fatal(err)
	}
	cfg.ConnConfig.DialFunc = func(ctx context.Context, network, addr string) (net.Conn, error) { return s.Dial(owner) }
	cfg.ConnConfig.LookupFunc = func(ctx context.Context, host string) ([]string, error) { return []string{"127.0.0.1"}, nil }
	cfg.HealthCheckPeriod = 1000 * time.Hour
	cfg.MaxConnIdleTime = 1000 * time.Hour
	cfg.MaxConnLifetime = 1000 * time.Hour
	cfg.MaxConns = 4
	p, err := pgxpool.NewWithConfig(context.Background(), cfg)
	if err != nil {
		t.Fatal(err)
	}
	return p
}

func TestBasic(t *testing.T) {
	synctest.Test(t, func(t *testing.T) {
		s := NewServer()
		if err := s.InstallSchema(shovel.Schema); err != nil {
			t.Fatal(err)
		}
		var commits []*CommitInfo
		s.DB.OnCommit = func(ci *CommitInfo) { commits = append(commits, ci) }
		ctx := context.Background()
		p := NewPool(t, s, "a")
		if _, err := p.Exec(ctx, "set application_name = 'x'"); err != nil {
			t.Fatal(err)
		}
		if _, err := p.Exec(ctx, `create table if not exists foo(a text, "b" numeric, c bytea, d int, e bool, f int2)`); err != nil {
			t.Fatal(err)
		}
		if _, err := p.Exec(ctx, `create unique index if not exists u_foo on foo (a, b)`); err != nil {
			t.Fatal(err)
		}
		tx, err := p.Begin(ctx)
		if err != nil {
			t.Fatal(err)
		}
		var num uint64
		var hash []byte
		err = tx.QueryRow(ctx, `select num, hash from shovel.task_updates where src_name = $1 and ig_name = $2 order by num desc limit 1`, "s", "i").Scan(&num, &hash)
		if err != pgx.ErrNoRows {
			t.Fatalf("want no rows, got %v", err)
		}
		_, err = tx.Exec(ctx, `insert into shovel.task_updates (chain_id, src_name, ig_name, num, hash, src_num, src_hash, stop, nblocks, nrows, latency) values ($1,$2,$3,$4,$5,$6,$7,$8,$9,$10,$11)`,
			uint64(1), "s", "i", uint64(7), []byte{1, 2}, uint64(9), []byte{3}, uint64(0), uint64(1), int64(5), time.Second)
		if err != nil {
			t.Fatal(err)
		}
		n, err := tx.CopyFrom(ctx, pgx.Identifier{"foo"}, []string{"a", "b", "c", "d", "e", "f"}, pgx.CopyFromRows([][]any{
			{"x", uint64(12345678901234), []byte{9}, 3, true, 2},
			{"y", "99999999999999999999999999999", []byte{}, 4, false, 1},
		}))
		if err != nil || n != 2 {
			t.Fatal(n, err)
		}
		if err := tx.Commit(ctx); err != nil {
			t.Fatal(err)
		}
		err = p.QueryRow(ctx, `select num, hash from shovel.task_updates where src_name = $1 and ig_name = $2 order by num desc limit 1`, "s", "i").Scan(&num, &hash)
		if err != nil || num != 7 || len(hash) != 2 {
			t.Fatal(num, hash, err)
		}
		// dependency query
		err = p.QueryRow(ctx, `
		with latest as (
			select distinct on (ig_name)
			ig_name, num, hash
			from shovel.task_updates
			where src_name = $1
			and ig_name = ANY($2)
			order by ig_name, num desc
		)
		select num, hash
		from latest
		order by num asc
		limit 1;`, "s", []string{"i", "j"}).Scan(&num, &hash)
		if err != nil || num != 7 {
			t.Fatal(num, err)
		}
		// unique violation
		_, err = p.CopyFrom(ctx, pgx.Identifier{"foo"}, []string{"a", "b"}, pgx.CopyFromRows([][]any{{"x", uint64(12345678901234)}}))
		if err == nil {
			t.Fatal("expected unique violation")
		}
		t.Log("unique:", err)
		var ok bool
		err = p.QueryRow(ctx, `select true from foo where c = $1`, []byte{9}).Scan(&ok)
		if err != nil || !ok {
			t.Fatal(err)
		}
		ct, err := p.Exec(ctx, `delete from foo where a = $1 and b >= $2`, "x", uint64(5))
		if err != nil || ct.RowsAffected() != 1 {
			t.Fatal(ct, err)
		}
		if _, err := p.Exec(ctx, `select pg_notify('a-b', $1)`, "payload"); err != nil {
			t.Fatal(err)
		}
		rows, _ := p.Query(ctx, `select column_name, data_type from information_schema.columns where table_schema = 'public' and table_name = $1`, "foo")
		cnt := 0
		for rows.Next() {
			cnt++
		}
		if rows.Err() != nil || cnt != 6 {
			t.Fatal(cnt, rows.Err())
		}
		t.Log("commits", len(commits), "snapshot seq", s.DB.Snapshot().Seq)
		if s.Unsupported != nil {
			t.Fatal(s.Unsupported)
		}
		p.Close()
		time.Sleep(time.Second)
		synctest.Wait()
	})
}
