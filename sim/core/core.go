// Package core holds the simulator kernel: the decision stream (the only source
// of choice), the parking scheduler used by every seam, the time policy and
// the event log.
package core

import (
	"context"
	"fmt"
	"hash/fnv"
	"io"
	"math/rand/v2"
	"sort"
	"sync"
	"time"
)

// ---- decision stream ----

// Stream is the single source of every choice in a run. In exploration it is a
// PRNG whose draws are recorded; in replay it reads a recorded vector, and a
// draw past the end or out of range yields 0 (by construction the most benign
// choice everywhere), which is what makes truncation-based shrinking valid.
type Stream struct {
	rng    *rand.Rand
	replay []uint32
	isRep  bool
	pos    int
	rec    []uint32
	Limit  int // max draws (0 = unlimited); beyond it draws return 0
	// Journal, if set, receives every recorded draw immediately (one decimal
	// per line) so that the vector survives a process-killing panic.
	Journal io.Writer
}

func (s *Stream) record(v uint32) {
	s.pos++
	s.rec = append(s.rec, v)
	if s.Journal != nil {
		fmt.Fprintf(s.Journal, "%d\n", v)
	}
}

func NewStream(seed uint64) *Stream {
	return &Stream{rng: rand.New(rand.NewPCG(seed, seed^0x9e3779b97f4a7c15))}
}

func NewReplay(vec []uint32) *Stream {
	return &Stream{replay: vec, isRep: true}
}

// Draw returns a value in [0,n). Draw(1) and Draw(0) return 0 and still
// consume a position so that vectors stay aligned across fault/no-fault runs.
func (s *Stream) Draw(n int, label string) int {
	var v uint32
	if s.isRep {
		if s.pos < len(s.replay) {
			v = s.replay[s.pos]
		}
		if n <= 1 || int(v) >= n {
			v = 0
		}
	} else {
		if n > 1 && (s.Limit == 0 || s.pos < s.Limit) {
			v = uint32(s.rng.IntN(n))
		}
	}
	s.record(v)
	return int(v)
}

// Chance draws a biased coin: true with probability num/den. Recorded as 0/1
// with 0 = false, so that shrinking toward zero removes faults.
func (s *Stream) Chance(num, den int, label string) bool {
	if s.isRep {
		v := s.Draw(2, label)
		if num <= 0 && v != 0 {
			s.rec[len(s.rec)-1] = 0
			return false
		}
		return v == 1
	}
	hit := num > 0 && (s.Limit == 0 || s.pos < s.Limit) && s.rng.IntN(den) < num
	v := uint32(0)
	if hit {
		v = 1
	}
	s.record(v)
	return hit
}

// Weighted draws an index with the given weights; recorded as the index.
func (s *Stream) Weighted(w []int, label string) int {
	if s.isRep {
		v := s.Draw(len(w), label)
		if v < len(w) && w[v] <= 0 {
			// a choice the plan does not enable (can appear when a shrinker
			// lowers a recorded value): fall back to the benign choice
			s.rec[len(s.rec)-1] = 0
			return 0
		}
		return v
	}
	tot := 0
	for _, x := range w {
		tot += x
	}
	v := 0
	if tot > 0 && (s.Limit == 0 || s.pos < s.Limit) {
		r := s.rng.IntN(tot)
		for i, x := range w {
			if r < x {
				v = i
				break
			}
			r -= x
		}
	}
	s.record(uint32(v))
	return v
}

func (s *Stream) Recorded() []uint32 { return s.rec }
func (s *Stream) Pos() int           { return s.pos }
func (s *Stream) Replaying() bool    { return s.isRep }

// ---- parking scheduler ----

// Pending is one goroutine parked at a seam.
type Pending struct {
	Kind     string
	Key      string // canonical, id-free content key
	Data     any
	Lock     any // for Kind=="lock": the lock identity
	LockKind string
	seq      int
	resume   chan any
	gone     bool
}

type Sched struct {
	mu       sync.Mutex
	pending  []*Pending
	nextSeq  int
	held     map[any]bool
	granted  map[any]int
	segCache map[any]any
	wake     chan struct{}
	Log      *EventLog
	Broken   string // set when an internal scheduling rule was violated
	Burst    bool   // burst windows: also keep segment grants apart from a held cache lock
}

func NewSched() *Sched {
	return &Sched{held: map[any]bool{}, granted: map[any]int{}, segCache: map[any]any{}, wake: make(chan struct{}, 1), Log: &EventLog{}}
}

func (s *Sched) signal() {
	select {
	case s.wake <- struct{}{}:
	default:
	}
}

// Wake returns the channel signalled whenever a goroutine parks.
func (s *Sched) Wake() <-chan struct{} { return s.wake }

// Park registers the caller as pending and blocks until released. If ctx is
// done first the registration is withdrawn and (nil, ctx.Err()) is returned.
func (s *Sched) Park(ctx context.Context, kind, key string, data any) (any, error) {
	p := &Pending{Kind: kind, Key: key, Data: data, resume: make(chan any, 1)}
	s.mu.Lock()
	p.seq = s.nextSeq
	s.nextSeq++
	s.pending = append(s.pending, p)
	s.mu.Unlock()
	s.signal()
	if ctx == nil {
		return <-p.resume, nil
	}
	select {
	case v := <-p.resume:
		return v, nil
	case <-ctx.Done():
		s.mu.Lock()
		p.gone = true
		for i, q := range s.pending {
			if q == p {
				s.pending = append(s.pending[:i], s.pending[i+1:]...)
				break
			}
		}
		s.mu.Unlock()
		// a release may have raced with cancellation
		select {
		case v := <-p.resume:
			return v, nil
		default:
		}
		return nil, ctx.Err()
	}
}

// Acquire / Release implement the lock hooks: Acquire parks until the
// scheduler grants the lock (only when free), so the real Lock() that follows
// never blocks.
func (s *Sched) Acquire(lock any, kind string, a, b uint64, owner string) {
	if kind == "seg-prune" {
		// pruneMaxRead locks every segment of its cache while holding the
		// cache lock. The cache lock is only granted while no segment of that
		// cache is held (see Collect), so these never block and need no
		// scheduling point; iterating the segment map in random order then
		// cannot influence the event sequence.
		s.mu.Lock()
		if s.held[lock] {
			s.Broken = fmt.Sprintf("seg-prune on a held segment lock (%d,%d): cache-grant rule violated", a, b)
		}
		s.mu.Unlock()
		return
	}
	if kind == "pgmut" {
		// the mutex around COPY and lookups of one step: never contended in
		// the code as it stands (one inserting goroutine per step), so a free
		// lock is granted on the spot and adds no scheduling point; a change
		// that makes several goroutines of a step insert at once parks the
		// late comers here instead of blocking them on the real mutex, which
		// the bubble could not wait out
		s.mu.Lock()
		if !s.held[lock] {
			s.held[lock] = true
			s.granted[lock]++
			s.mu.Unlock()
			return
		}
		s.mu.Unlock()
	}
	p := &Pending{Kind: "lock", LockKind: kind, Key: fmt.Sprintf("lock %s %d %d %s", kind, a, b, owner), Lock: lock, resume: make(chan any, 1)}
	s.mu.Lock()
	p.seq = s.nextSeq
	s.nextSeq++
	s.pending = append(s.pending, p)
	s.mu.Unlock()
	s.signal()
	<-p.resume
}

// SegmentOf records that segment lock seg belongs to cache lock c.
func (s *Sched) SegmentOf(c, seg any) {
	s.mu.Lock()
	s.segCache[seg] = c
	s.mu.Unlock()
}

func (s *Sched) ReleaseLock(lock any) {
	s.mu.Lock()
	if _, isPrune := s.held[lock]; isPrune || true {
		// seg-prune releases arrive for locks this scheduler never granted
		// (they are not tracked); only drop locks granted through Release.
		if s.granted[lock] > 0 {
			s.granted[lock]--
			if s.granted[lock] == 0 {
				delete(s.held, lock)
				delete(s.granted, lock)
			}
		}
	}
	s.mu.Unlock()
}

// Collect returns the enabled pending events in canonical order. Call only
// when every other goroutine is durably blocked (after synctest.Wait).
func (s *Sched) Collect() []*Pending {
	s.mu.Lock()
	defer s.mu.Unlock()
	var out []*Pending
	for _, p := range s.pending {
		if !s.enabledLocked(p) {
			continue
		}
		out = append(out, p)
	}
	sort.SliceStable(out, func(i, j int) bool {
		if out[i].Key != out[j].Key {
			return out[i].Key < out[j].Key
		}
		return out[i].seq < out[j].seq
	})
	return out
}

// enabledLocked reports whether p may be released now. Lock requests are
// enabled only while the lock is free; the cache lock only while no segment of
// that cache is held (pruneMaxRead locks every segment while holding it), and
// a segment lock only while its cache lock is free (the latter can only be
// observed in burst mode, where several events are released together).
func (s *Sched) enabledLocked(p *Pending) bool {
	if p.Kind != "lock" {
		return true
	}
	if s.held[p.Lock] {
		return false
	}
	if p.LockKind == "cache" {
		for l := range s.held {
			if s.segCache[l] == p.Lock {
				return false
			}
		}
	}
	if c, ok := s.segCache[p.Lock]; s.Burst && ok && s.held[c] {
		// burst windows only: with one event per step the cache lock is
		// never held at a scheduling point by the current code, and code that
		// takes a segment lock while holding the cache lock must be able to
		// proceed once the segment is free
		return false
	}
	return true
}

// Take removes p from the pending set (granting its lock) without resuming
// it, if it is still enabled; Send resumes a taken event. Burst mode takes a
// whole set first and resumes it afterwards, so that every decision is drawn
// before any released goroutine runs.
func (s *Sched) Take(p *Pending) bool {
	s.mu.Lock()
	defer s.mu.Unlock()
	if !s.enabledLocked(p) {
		return false
	}
	found := false
	for i, q := range s.pending {
		if q == p {
			s.pending = append(s.pending[:i], s.pending[i+1:]...)
			found = true
			break
		}
	}
	if !found {
		return false
	}
	if p.Kind == "lock" {
		s.held[p.Lock] = true
		s.granted[p.Lock]++
	}
	return true
}

func (s *Sched) Send(p *Pending, v any) { p.resume <- v }

// All returns every pending event, including blocked lock requests.
func (s *Sched) All() []*Pending {
	s.mu.Lock()
	defer s.mu.Unlock()
	return append([]*Pending(nil), s.pending...)
}

// Abandon removes p from the pending set without resuming it: the goroutine
// stays blocked until its context is done (a stalled request).
func (s *Sched) Abandon(p *Pending) {
	s.mu.Lock()
	for i, q := range s.pending {
		if q == p {
			s.pending = append(s.pending[:i], s.pending[i+1:]...)
			break
		}
	}
	s.mu.Unlock()
}

// Release resumes p with the given decision value.
func (s *Sched) Release(p *Pending, v any) {
	s.mu.Lock()
	for i, q := range s.pending {
		if q == p {
			s.pending = append(s.pending[:i], s.pending[i+1:]...)
			break
		}
	}
	if p.Kind == "lock" {
		s.held[p.Lock] = true
		s.granted[p.Lock]++
	}
	s.mu.Unlock()
	p.resume <- v
}

// ---- time policy ----

// Clock advances simulated time so that step k happens at an instant whose
// sub-millisecond residue is k nanoseconds: every timer armed during step k
// (all durations inside shovel are whole milliseconds) then fires at an
// instant no other step's timers share.
type Clock struct {
	Start time.Time
}

func NewClock() *Clock { return &Clock{Start: time.Now()} }

func (c *Clock) AdvanceTo(step int, extra time.Duration) {
	now := time.Now()
	ms := now.Truncate(time.Millisecond)
	target := ms.Add(time.Millisecond + extra.Truncate(time.Millisecond) + time.Duration(step%999_000+1)*time.Nanosecond)
	if d := target.Sub(now); d > 0 {
		time.Sleep(d)
	}
}

func (c *Clock) Elapsed() time.Duration { return time.Since(c.Start) }

// ---- event log ----

type EventLog struct {
	mu     sync.Mutex
	Lines  []string
	Keep   bool // keep full lines (replay/debug); always hashed
	Sink   io.Writer
	h      uint64
	n      int
	hasher interface {
		Write([]byte) (int, error)
		Sum64() uint64
	}
}

func (l *EventLog) Add(format string, a ...any) {
	l.mu.Lock()
	defer l.mu.Unlock()
	if l.hasher == nil {
		l.hasher = fnv.New64a()
	}
	line := fmt.Sprintf(format, a...)
	l.hasher.Write([]byte(line))
	l.hasher.Write([]byte{'\n'})
	l.n++
	if l.Sink != nil {
		io.WriteString(l.Sink, line+"\n")
	}
	if l.Keep {
		l.Lines = append(l.Lines, line)
	} else {
		// keep a bounded tail
		l.Lines = append(l.Lines, line)
		if len(l.Lines) > 400 {
			l.Lines = append(l.Lines[:0], l.Lines[200:]...)
		}
	}
}

func (l *EventLog) Hash() uint64 {
	l.mu.Lock()
	defer l.mu.Unlock()
	if l.hasher == nil {
		return 0
	}
	return l.hasher.Sum64()
}

func (l *EventLog) Len() int {
	l.mu.Lock()
	defer l.mu.Unlock()
	return l.n
}

func (l *EventLog) Tail(n int) []string {
	l.mu.Lock()
	defer l.mu.Unlock()
	if len(l.Lines) <= n {
		return append([]string(nil), l.Lines...)
	}
	return append([]string(nil), l.Lines[len(l.Lines)-n:]...)
}
