package harness

import (
	"fmt"
	"testing"

	"verifsim/core"
	"verifsim/model"
)

func init() {
	Generators["C18"] = GenC18
	Runners["C18"] = func(t *testing.T, plan *Plan, st *core.Stream, extra Extra, keepLog bool) *Result {
		if plan.FreeSteps > 0 {
			return RunFree(t, plan, st, extra, keepLog)
		}
		return Run(t, plan, st, extra, keepLog)
	}
}

var c18ReceiptFields = []string{"tx_status", "tx_gas_used"}

// GenC18 — workloads for the race detector: 1-4 integrations on one shared
// source client (sometimes two sources), concurrency 2-8 with partitioned
// loading and inserting, overlapping ranges so cached segments are shared,
// different data plans on the same blocks (headers, full blocks, logs,
// receipts, traces), the head poller, growth and reorgs in flight. The
// scheduler runs in burst mode (sets of events released together).
func GenC18(seed uint64) *Plan {
	g := NewG(seed)
	p := g.basePlan("C18", seed)
	p.Burst = true
	p.SharedPool = g.chance(50)
	sp := &p.Sources[0]
	sp.Conc = g.between(2, 8)
	sp.Batch = sp.Conc * g.between(1, 3)
	if g.chance(20) {
		sp.Batch = g.between(2, 12)
	}
	sp.InitLen = g.between(16, 40)
	sp.PollMs = g.pickInt([]int{100, 250, 1000})
	nd := g.between(1, 4)
	// most tasks start at the same block so that they read the same segments
	common := uint64(g.between(1, sp.InitLen/2))
	var first *model.Decl
	for i := 0; i < nd; i++ {
		start := common
		if g.chance(25) {
			start = uint64(g.between(1, sp.InitLen-1))
		}
		var d *model.Decl
		if first != nil && g.chance(35) {
			d = cloneDecl(first)
			d.Name = fmt.Sprintf("ig%d", i)
			d.Sources = []model.SrcRef{{Name: sp.Name, Start: start}}
		} else {
			d = g.randomDecl(p, i, fmt.Sprintf("t_ig%d", i), start, 0, []int{30, 20})
			if first == nil {
				first = d
			}
		}
		if g.chance(60) {
			g.hashedDecl(d)
		}
		if d.Mode() != model.ModeTrace && g.chance(35) {
			// receipts plan: eth_getBlockReceipts attaches receipt data to the
			// (shared, cached) blocks
			f := g.pick(c18ReceiptFields)
			has := false
			for _, b := range d.Block {
				if b.Name == f {
					has = true
				}
			}
			if !has {
				d.Block = append(d.Block, model.Field{Name: f, Column: f})
				d.Table.Columns = append(d.Table.Columns, model.Col{Name: f, Type: FieldType[f]})
			}
		}
		p.Decls = append(p.Decls, d)
	}
	if g.chance(30) {
		// a second source: every integration also runs there, so one
		// integration has two tasks that insert at the same time
		s2 := *sp
		s2.Name = "s1"
		if g.chance(50) {
			s2.ChainID = uint64(g.between(1, 9999))
		}
		p.Sources = append(p.Sources, s2)
		for _, d := range p.Decls {
			d.Sources = append(d.Sources, model.SrcRef{Name: "s1", Start: d.Sources[0].Start})
		}
	}
	g.ensureEvents(p)
	f := &p.Faults
	f.HealAt = g.between(200, 1500)
	f.GrowPerMille = g.pickInt([]int{10, 30, 60})
	f.MaxGrow = g.between(5, 30)
	if g.chance(50) {
		for _, d := range p.Decls {
			g.hashedDecl(d)
		}
		g.reorgFaults(p, g.between(1, 4))
		p.Checks["settle"] = true
	}
	if g.chance(40) {
		f.EarlyRefuseEvery = g.between(5, 40)
	}
	if g.chance(30) {
		f.HTTPPerMille = g.between(5, 40)
		f.HTTPKinds = 1<<hfConnErr | 1<<hfStatus | 1<<hfRPCError | 1<<hfNullResult
	}
	p.Checks["race_only"] = true
	p.MaxSteps = 2500
	if g.chance(40) {
		// free-running run: frozen chain, no faults, real mutexes, the Go
		// scheduler decides; tasks at different heights and high concurrency
		// so that more than five segments are cached at once
		p.Burst = false
		p.FreeSteps = g.between(20, 60)
		p.Faults = FaultPlan{}
		sp.InitLen = g.between(30, 70)
		sp.PollMs = g.pickInt([]int{100, 250})
		for i, d := range p.Decls {
			if i > 0 && g.chance(50) {
				d.Sources[0].Start = uint64(g.between(1, sp.InitLen/2))
			}
		}
	}
	return p
}
