package harness

import (
	"bufio"
	"encoding/binary"
	"encoding/json"
	"fmt"
	"os"
	"strconv"
	"strings"
	"testing"
	"time"

	"verifsim/core"
	"verifsim/node"
)

func RunSeed(seedBase uint64, prop string, i int) uint64 {
	var buf [16]byte
	binary.BigEndian.PutUint64(buf[0:], seedBase)
	binary.BigEndian.PutUint64(buf[8:], uint64(i))
	h := node.Keccak([]byte(prop), buf[:])
	return binary.BigEndian.Uint64(h[:8])
}

type Replay struct {
	Prop      string      `json:"prop"`
	Tier      string      `json:"tier"`
	Seed      uint64      `json:"seed"`
	RunIndex  int         `json:"run_index"`
	Plan      *Plan       `json:"plan"`
	Decisions []uint32    `json:"decisions"`
	Violation *Violation  `json:"violation,omitempty"`
	AllViol   []Violation `json:"all_violations,omitempty"`
	LogTail   []string    `json:"log_tail,omitempty"`
	RepoTree  string      `json:"repo_tree,omitempty"`
	Minimised bool        `json:"minimised"`
	Crash     string      `json:"crash,omitempty"`
	Note      string      `json:"note,omitempty"`
	MinRuns   int         `json:"min_runs,omitempty"`
}

func envInt(name string, def int) int {
	if v := os.Getenv(name); v != "" {
		n, err := strconv.Atoi(v)
		if err == nil {
			return n
		}
	}
	return def
}

// TestWorker is the worker entry point. Environment:
//
//	VERIF_PROP, VERIF_SEED, VERIF_FROM, VERIF_TO  explore runs [from,to)
//	VERIF_OUT       JSONL output (one Result per run, preceded by start lines)
//	VERIF_REPLAYDIR where to write replay files of violating runs
//	VERIF_REPLAY    replay this file instead
//	VERIF_DEADLINE  unix seconds after which no new run is started
func TestWorker(t *testing.T) {
	prop := os.Getenv("VERIF_PROP")
	if prop == "" {
		t.Skip("VERIF_PROP not set")
	}
	out := os.Stdout
	if p := os.Getenv("VERIF_OUT"); p != "" {
		f, err := os.Create(p)
		if err != nil {
			t.Fatal(err)
		}
		defer f.Close()
		out = f
	}
	bw := bufio.NewWriter(out)
	defer bw.Flush()
	emit := func(v any) {
		b, _ := json.Marshal(v)
		bw.Write(b)
		bw.WriteByte('\n')
		bw.Flush()
	}
	if rp := os.Getenv("VERIF_REPLAY"); rp != "" {
		b, err := os.ReadFile(rp)
		if err != nil {
			t.Fatal(err)
		}
		var r Replay
		if err := json.Unmarshal(b, &r); err != nil {
			t.Fatal(err)
		}
		if r.Plan != nil && r.Plan.Checks == nil {
			r.Plan.Checks = map[string]bool{}
		}
		if os.Getenv("VERIF_MINIMISE") != "" {
			budget := time.Duration(envInt("VERIF_MIN_BUDGET_S", 20)) * time.Second
			m := Minimise(t, &r, budget)
			emit(m)
			return
		}
		emit(map[string]any{"start": r.RunIndex})
		res := RunPlan(t, r.Plan, core.NewReplay(r.Decisions), true)
		collectRaces(res)
		raceOnly(r.Plan, res)
		res.Decisions = nil
		emit(res)
		return
	}
	gen := Generators[prop]
	idx := Indexed[prop]
	if gen == nil && idx == nil {
		t.Fatalf("no generator for %s", prop)
	}
	if os.Getenv("VERIF_ENUM_SIZE") != "" {
		if f, ok := EnumSize[prop]; ok {
			emit(map[string]any{"enum_size": f(t)})
		}
		return
	}
	base := uint64(envInt("VERIF_SEED", 1))
	from, to := envInt("VERIF_FROM", 0), envInt("VERIF_TO", 10)
	deadline := int64(envInt("VERIF_DEADLINE", 0))
	rdir := os.Getenv("VERIF_REPLAYDIR")
	stride := envInt("VERIF_STRIDE", 1)
	for i := from; i < to; i += stride {
		if deadline > 0 && time.Now().Unix() >= deadline {
			emit(map[string]any{"deadline_at": i})
			break
		}
		seed := RunSeed(base, prop, i)
		var plan *Plan
		if idx != nil {
			var ok bool
			plan, ok = idx(t, i, base)
			if !ok {
				break
			}
		} else {
			plan = gen(seed)
		}
		plan.Normalize()
		emit(map[string]any{"start": i, "seed": seed})
		st := core.NewStream(seed ^ 0x5bd1e995)
		st.Limit = envInt("VERIF_MAX_DECISIONS", 6000)
		if jp := os.Getenv("VERIF_JOURNAL"); jp != "" {
			pj, _ := json.Marshal(plan)
			os.WriteFile(jp+".plan", pj, 0o644)
			jf, err := os.Create(jp)
			if err != nil {
				t.Fatal(err)
			}
			defer jf.Close()
			st.Journal = jf
		}
		res := RunPlan(t, plan, st, os.Getenv("VERIF_DUMPLOG") != "")
		res.Seed = seed
		collectRaces(res)
		raceOnly(plan, res)
		if dp := os.Getenv("VERIF_DUMPLOG"); dp != "" {
			os.WriteFile(fmt.Sprintf("%s.%d", dp, i), []byte(strings.Join(res.LogTail, "\n")+"\n"), 0o644)
		}
		if (len(res.Violations) > 0 || res.HarnessErr != "") && rdir != "" {
			rep := Replay{Prop: prop, Tier: os.Getenv("VERIF_TIER"), Seed: seed, RunIndex: i, Plan: plan, Decisions: res.Decisions, AllViol: res.Violations, LogTail: res.LogTail}
			if len(res.Violations) > 0 {
				rep.Violation = &res.Violations[0]
			}
			b, _ := json.MarshalIndent(rep, "", " ")
			os.WriteFile(fmt.Sprintf("%s/%s-%d.raw.json", rdir, prop, seed), b, 0o644)
		}
		res.Decisions = nil
		if len(res.Violations) == 0 && res.HarnessErr == "" {
			res.LogTail = nil
		}
		emit(struct {
			Index int `json:"index"`
			*Result
		}{i, res})
	}
	// the testing package fails a test during which the race detector
	// reported anything; the orchestrator relies on this line instead of
	// the exit status
	emit(map[string]any{"worker_done": true})
}
