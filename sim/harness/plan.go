// Package harness assembles the whole system under the simulator: real
// shovel.Task / dig / jrpc2 / pgx against the simulated node and fake Postgres,
// driven by the seeded scheduler, with the reference-model oracles.
package harness

import (
	"regexp"
	"encoding/json"
	"fmt"
	"strings"

	"verifsim/model"
)

type SourcePlan struct {
	Name    string `json:"name"`
	ChainID uint64 `json:"chain_id"`
	NURLs   int    `json:"n_urls"`
	Batch   int    `json:"batch"`
	Conc    int    `json:"conc"`
	PollMs  int    `json:"poll_ms"`
	InitLen int    `json:"init_len"` // blocks 0..InitLen-1 exist at start
	// LagMax > 0: every replica URL but the first may be up to LagMax blocks
	// behind (drawn per request while faults are on)
	LagMax int `json:"lag_max,omitempty"`
	// WS: the source has a ws_url; heads are pushed over a subscription
	// instead of being polled
	WS bool `json:"ws,omitempty"`
}

// PrunePlan: a background pruner of position rows (keep the newest Keep rows
// of every pair, every EveryMs of simulated time).
type PrunePlan struct {
	Keep    int `json:"keep"`
	EveryMs int `json:"every_ms"`
}

// EventSpec is an event the content generator may emit (declared or decoy).
type EventSpec struct {
	Event *model.Event `json:"event"`
	Decoy bool         `json:"decoy,omitempty"`
}

type ContentPlan struct {
	Late     []LateAddr  `json:"late,omitempty"`
	TxMax    int         `json:"tx_max"`
	LogMax   int         `json:"log_max"`
	TraceMax int         `json:"trace_max"`
	Events   []EventSpec `json:"events"`
	Addrs    []string    `json:"addrs"`     // hex address pool (declared filter addresses first)
	EmptyPct int         `json:"empty_pct"` // percent of blocks without transactions
	// Distinct: every field of every item distinct and non-zero (C14)
	Distinct bool `json:"distinct,omitempty"`
	// MinTraces: every tx has at least this many traces (trace mode)
	MinTraces int `json:"min_traces,omitempty"`
	MinTx     int `json:"min_tx,omitempty"`
	MinLogs   int `json:"min_logs,omitempty"`
	// MarkStrings: string values emitted in logs carry the C15 marker
	MarkStrings bool `json:"mark_strings,omitempty"`
	// PoolTxPct: percent of transactions whose from/to come from the address pool
	PoolTxPct int `json:"pool_tx_pct,omitempty"`
	// Seeded: blocks 1..UpTo each carry one log of Event per pool address
	// (as value of input AddrInput), so that a referenced table contains the
	// whole pool before any dependent block is processed.
	Seeded []SeededLogs `json:"seeded,omitempty"`
}

type SeededLogs struct {
	Event     *model.Event `json:"event"`
	AddrInput int          `json:"addr_input"`
	UpTo      uint64       `json:"up_to"`
	// Only: indices into the address pool that are seeded (empty = all)
	Only []int `json:"only,omitempty"`
}

// LateAddr: an address that enters a referenced table late: Event (with the
// address in input AddrInput) is emitted in block At - in Pct % of the versions
// of that block only - and nowhere else; other events carry the address only
// in blocks after At. Whether the address is in the referenced table therefore
// depends on which version of block At is canonical, and every lookup of it
// happens above At.
type LateAddr struct {
	Event     *model.Event `json:"event"`
	AddrInput int          `json:"addr_input"`
	Addr      string       `json:"addr"`
	At        uint64       `json:"at"`
	Pct       int          `json:"pct"`
}

type FaultPlan struct {
	HTTPPerMille  int  `json:"http_pm"`
	PGPerMille    int  `json:"pg_pm"`
	CrashPerMille int  `json:"crash_pm"`
	GrowPerMille  int  `json:"grow_pm"`
	ReorgPerMille int  `json:"reorg_pm"`
	JumpPerMille  int  `json:"jump_pm"`
	MidBatchPM    int  `json:"midbatch_pm"`
	MaxReorgDepth int  `json:"max_reorg_depth"`
	MaxGrow       int  `json:"max_grow"`   // total extra blocks allowed
	MaxReorgs     int  `json:"max_reorgs"` // total reorgs allowed
	HealAt        int  `json:"heal_at"`    // scheduler step after which nothing is injected
	Stall         bool `json:"stall"`      // allow HTTP stalls (timeouts)
	LostAck       bool `json:"lost_ack"`   // allow drop-after on PG
	HTTPKinds     int  `json:"http_kinds"` // bitmask of enabled HTTP fault kinds
	// EarlyRefuseEvery > 0: every n-th HTTP request is refused before its
	// body is read (until the heal point)
	EarlyRefuseEvery int `json:"early_refuse_every,omitempty"`
	// Reconfig: a restart may come back with another batch size and
	// concurrency (the operator edited the configuration while it was down)
	Reconfig bool `json:"reconfig,omitempty"`
}

type Plan struct {
	Prune    *PrunePlan    `json:"prune,omitempty"`
	Prop     string        `json:"prop"`
	Seed     uint64        `json:"seed"`
	Sources  []SourcePlan  `json:"sources"`
	Decls    []*model.Decl `json:"decls"`
	Content  ContentPlan   `json:"content"`
	Faults   FaultPlan     `json:"faults"`
	MaxSteps int           `json:"max_steps"`
	// SharedPool: all tasks share one pool (like the real binary). Otherwise
	// each task gets its own pool so the fake server knows transaction owners.
	SharedPool bool `json:"shared_pool,omitempty"`
	// Checks selects oracle families beyond the always-on ones.
	Checks map[string]bool `json:"checks,omitempty"`
	// C15: configuration-injection case.
	C15       *C15Case        `json:"c15,omitempty"`
	RawConfig json.RawMessage `json:"raw_config,omitempty"`
	C15Submit json.RawMessage `json:"c15_submit,omitempty"`
	// C20: manager case.
	C20 *C20Case `json:"c20,omitempty"`
	// C08: client-level case (cache transparency).
	C08 *C08Case `json:"c08,omitempty"`
	// C07: client-level case (response corruption).
	C07 *C07Case `json:"c07,omitempty"`
	// Script injects exactly these faults (by ordinal of the seam event in the
	// run) regardless of the decision stream: fault enumeration.
	Script []ScriptedFault `json:"script,omitempty"`
	// ScriptChain applies chain events when a position is first recorded.
	ScriptChain []ScriptedChain `json:"script_chain,omitempty"`
	// PreDDL is executed before migration (pre-existing tables).
	PreDDL []string `json:"pre_ddl,omitempty"`
	// Idle lists pair keys ("src/ig") that get no runner (never started).
	Idle []string `json:"idle,omitempty"`
	Note string   `json:"note,omitempty"`
	// Burst: the scheduler releases a drawn *set* of pending events together;
	// the released goroutine trees then run truly concurrently until each parks
	// again (C18, race detector builds).
	Burst bool `json:"burst,omitempty"`
	// FreeSteps > 0: free-running run (C18): that many Converge calls per task
	// at most, nothing parks, the Go scheduler decides the interleaving.
	FreeSteps int `json:"free_steps,omitempty"`
	// ExpectSem: the fault-free run\'s semantic state hash (retry oracle).
	ExpectSem string `json:"expect_sem,omitempty"`
}

func (p *Plan) JSON() string {
	b, _ := json.Marshal(p)
	return string(b)
}

func (p *Plan) Digest() string {
	s := fmt.Sprintf("src=%d", len(p.Sources))
	for _, sp := range p.Sources {
		s += fmt.Sprintf("[%s b%d c%d len%d]", sp.Name, sp.Batch, sp.Conc, sp.InitLen)
	}
	for _, d := range p.Decls {
		mode := []string{"tx", "log", "trace"}[d.Mode()]
		s += fmt.Sprintf(" %s:%s", d.Name, mode)
		for _, r := range d.Sources {
			s += fmt.Sprintf("(%s %d-%d)", r.Name, r.Start, r.Stop)
		}
	}
	return s
}

// ConfigJSON renders the plan as a shovel configuration document.
func (p *Plan) ConfigJSON(urlsFor func(src string) []string) ([]byte, error) {
	type srcJSON struct {
		Name        string   `json:"name"`
		ChainID     uint64   `json:"chain_id"`
		URLs        []string `json:"urls"`
		Poll        string   `json:"poll_duration"`
		Concurrency int      `json:"concurrency"`
		BatchSize   int      `json:"batch_size"`
		WSURL       string   `json:"ws_url,omitempty"`
	}
	root := struct {
		PGURL        string        `json:"pg_url"`
		Sources      []srcJSON     `json:"eth_sources"`
		Integrations []*model.Decl `json:"integrations"`
	}{PGURL: "postgres://sim/shovel"}
	for _, s := range p.Sources {
		sj := srcJSON{s.Name, s.ChainID, urlsFor(s.Name), fmt.Sprintf("%dms", s.PollMs), s.Conc, s.Batch, ""}
		if s.WS && len(sj.URLs) > 0 {
			sj.WSURL = "ws://" + strings.TrimPrefix(sj.URLs[0], "http://")
		}
		root.Sources = append(root.Sources, sj)
	}
	root.Integrations = p.Decls
	b, err := json.Marshal(root)
	if err == nil && p.Checks["quoted_numbers"] {
		// numbers as a deployment that fills them in from the environment
		// writes them: quoted strings, zero-padded
		b = quotedNumRE.ReplaceAll(b, []byte(`"$1":"0$2"`))
		b = quotedNumRE2.ReplaceAll(b, []byte(`"$1":"$2"`))
	}
	return b, err
}

// (zero-padded where every digit is below 8: a reader that took the padding for
// an octal prefix would then read another number instead of failing; plainly
// quoted otherwise)
var quotedNumRE = regexp.MustCompile(`"(start|stop|batch_size|concurrency|chain_id)":([0-7]+)\b`)
var quotedNumRE2 = regexp.MustCompile(`"(start|stop|batch_size|concurrency|chain_id)":([0-9]+)\b`)

// ScriptedFault: at the Ordinal-th event of Seam ("pg" or "http", counted from
// 0 over the whole run, current generation only) apply Kind.
// pg kinds: error, drop-before, drop-after, crash-before, crash-after.
// http kinds: conn_err, bad_status, truncated, non_json, rpc_error, null_result, stall.
type ScriptedFault struct {
	Seam    string `json:"seam"`
	Ordinal int    `json:"ordinal"`
	Kind    string `json:"kind"`
	Elem    int    `json:"elem,omitempty"` // element of a batch (rpc_error, null_result), cut point (truncated)
	// Class (pg only, with Ordinal -1): the fault hits the Nth event of that
	// class (commit, begin, ...) instead of the Ordinal-th event overall: robust
	// against how many events precede it
	Class string `json:"class,omitempty"`
	Nth   int    `json:"nth,omitempty"`
}

type ScriptedChain struct {
	// AtPos: fire once, when some pair of Src first records a position >= AtPos
	// (robust under faults, unlike counting successful calls).
	AtPos  int64  `json:"at_pos"`
	Pair   string `json:"pair,omitempty"` // only this pair\'s positions count ("src/ig")
	Src    string `json:"src"`
	Action string `json:"action"` // grow | reorg
	N      int    `json:"n,omitempty"`
	Depth  int    `json:"depth,omitempty"`
	NewLen int    `json:"new_len,omitempty"`
}

// Normalize settles options that depend on one another once a generator is
// done. Pruning: an unwind needs the position rows below the fork; the
// property speaks of replacements "within the retained position history", so
// on histories with replacements the pruner keeps what the binary keeps (200
// rows, more than any sequence of replacements of the plan can orphan), and is
// left out where that cannot be guaranteed. Small counts are used on histories
// that only grow.
func (p *Plan) Normalize() {
	if p.Prune == nil {
		return
	}
	worst := p.Faults.MaxReorgs * max(p.Faults.MaxReorgDepth, 1)
	for _, sc := range p.ScriptChain {
		if sc.Action == "reorg" {
			worst += max(sc.Depth, 1)
		}
	}
	switch {
	case worst == 0:
	case worst < 190:
		p.Prune.Keep = 200
	default:
		p.Prune = nil
	}
}
