package harness

import (
	"bytes"
	"fmt"
	"os"

	"verifsim/fakepg"
	"verifsim/model"
)

func init() {
	Generators["C05"] = GenC05
	Extras["C05"] = func(p *Plan) Extra {
		return Extra{OnCommit: c05OnCommit, OnOutcome: c05OnOutcome, AtEnd: c05AtEnd}
	}
}

// GenC05 — dependency graphs from filter references: one or two referenced
// integrations (on an event input and/or on the log address), referenced
// tasks that are slow, faulted or not started at all.
func GenC05(seed uint64) *Plan {
	g := NewG(seed)
	p := g.basePlan("C05", seed)
	sp := &p.Sources[0]
	sp.InitLen = g.between(20, 45)
	reorgRun := g.chance(45)
	if reorgRun {
		// a short chain: the tasks reach the head at once and follow it
		// while it grows and is replaced
		sp.InitLen = g.between(8, 14)
	}
	// (stops of referenced integrations only on histories without
	// replacements: a pair that has reached its stop does not look at the chain
	// again)
	g.refStops = !reorgRun
	g.depGraph(p, uint64(g.between(4, min(12, sp.InitLen-2))), 0)
	if !reorgRun && g.chance(25) {
		// the same graph on two sources, built by the repository's own
		// loadTasks in half of these runs; the first referenced integration may
		// index only the second source (then the dependent must do nothing on
		// the first one)
		s2 := *sp
		s2.Name = "s1"
		if g.chance(60) {
			s2.ChainID = uint64(g.between(1, 9999))
		}
		p.Sources = append(p.Sources, s2)
		for _, d := range p.Decls {
			d.Sources = append(d.Sources, model.SrcRef{Name: "s1", Start: d.Sources[0].Start})
		}
		if len(p.Decls) == 3 && g.chance(50) {
			p.Decls[0].Sources = p.Decls[0].Sources[1:]
		}
		p.Idle = nil
		p.SharedPool = g.chance(60)
		p.Checks["permute_integrations"] = true
	}
	g.transientFaults(p)
	p.Faults.Stall = false
	p.Faults.JumpPerMille = 0
	p.Faults.CrashPerMille = g.pickInt([]int{0, 0, 5})
	if reorgRun {
		// replaced blocks: referenced integrations unwind and re-index while
		// the dependent follows them (small batches, frequent and deep
		// replacements, so that the dependent is often a few batches behind a
		// referenced integration that has just unwound)
		for _, d := range p.Decls {
			g.hashedDecl(d)
		}
		// addresses that enter a referenced table near the head, in some
		// versions of their block only: whether the dependent may emit rows for
		// them depends on the branch that wins
		for k := 0; k < g.between(0, 6); k++ {
			ref := p.Decls[g.R.IntN(len(p.Decls)-1)]
			if ref.Event == nil || len(ref.Event.Inputs) == 0 || ref.Event.Inputs[0].Type != "address" {
				continue
			}
			p.Content.Late = append(p.Content.Late, LateAddr{Event: ref.Event, AddrInput: 0, Addr: g.addr(), At: uint64(g.between(sp.InitLen-3, sp.InitLen+12)), Pct: 50})
		}
		g.reorgFaults(p, g.between(2, 6))
		p.Faults.ReorgPerMille = g.pickInt([]int{15, 25, 40})
		p.Faults.MaxReorgs = g.between(10, 40)
		p.Faults.GrowPerMille = 12
		p.Faults.MaxGrow = 30
		p.Faults.HealAt = g.between(800, 2500)
		p.Faults.HTTPPerMille = min(p.Faults.HTTPPerMille, 25)
		p.Faults.PGPerMille = min(p.Faults.PGPerMille, 25)
		sp.Batch = g.between(1, 3)
		sp.Conc = g.between(1, sp.Batch)
		p.Checks["settle"] = true
	}
	return p
}

// depGraph adds one or two referenced integrations (started at block 1; blocks
// 1..3 carry the whole address pool, so a referenced table is complete for
// every block the dependent may process) and a dependent integration with the
// given range whose filters look them up.
func (g *G) depGraph(p *Plan, depStart, depStop uint64) {
	sp := &p.Sources[0]
	nref := g.between(1, 2)
	seedUpTo := uint64(3)
	sharedRefTable := nref == 2 && g.chance(40)
	hashRefs := g.chance(50)
	// referenced integrations: Created(address pool, uint256 x), pool selected
	for i := 0; i < nref; i++ {
		ev := &model.Event{Name: fmt.Sprintf("Created%d", i), Type: "event", Inputs: []model.Input{
			{Name: "pool", Type: "address", Indexed: g.chance(50), Column: "c_pool"},
			{Name: "x", Type: "uint256", Column: "c_x"},
		}}
		d := &model.Decl{Name: fmt.Sprintf("ref%d", i), Enabled: true, Event: ev,
			Sources: []model.SrcRef{{Name: sp.Name, Start: 1}}}
		d.Table.Name = "t_" + d.Name
		if g.refStops && g.chance(20) {
			// a referenced integration that ends early: it never records a
			// block beyond its stop, so neither may the dependent (the stop is
			// not below the block before the dependent's start: a dependent
			// whose range begins later reports "ahead" for ever)
			d.Sources[0].Stop = max(seedUpTo, depStart-1) + uint64(g.between(0, 5))
		}
		if sharedRefTable {
			// both referenced integrations write the same table and column
			d.Table.Name = "t_refs"
		}
		d.Table.Columns = []model.Col{{Name: "c_pool", Type: "bytea"}, {Name: "c_x", Type: "numeric"}}
		if hashRefs {
			g.hashedDecl(d)
		}
		p.Decls = append(p.Decls, d)
		p.Content.Events = append(p.Content.Events, EventSpec{Event: ev})
		p.Content.Seeded = append(p.Content.Seeded, SeededLogs{Event: ev, AddrInput: 0, UpTo: seedUpTo})
	}
	// dependent
	dev := &model.Event{Name: "Swap", Type: "event", Inputs: []model.Input{
		{Name: "who", Type: "address", Indexed: g.chance(50), Column: "c_who"},
		{Name: "amt", Type: "uint256", Column: "c_amt"},
	}}
	dep := &model.Decl{Name: "dep", Enabled: true, Event: dev,
		Sources: []model.SrcRef{{Name: sp.Name, Start: depStart, Stop: depStop}}}
	dep.Table.Name = "t_dep"
	dep.Table.Columns = []model.Col{{Name: "c_who", Type: "bytea"}, {Name: "c_amt", Type: "numeric"}}
	neg := func() string {
		if g.chance(25) {
			return "!contains"
		}
		return "contains"
	}
	// reference on the event input
	dep.Event.Inputs[0].Filter = &model.Filter{Op: neg(), Ref: &model.Ref{Integration: "ref0", Column: "c_pool"}}
	if nref == 2 || g.chance(40) {
		// reference on a block field (log address)
		target := "ref0"
		if nref == 2 {
			target = "ref1"
		}
		dep.Block = append(dep.Block, model.Field{Name: "log_addr", Column: "log_addr", Filter: &model.Filter{Op: neg(), Ref: &model.Ref{Integration: target, Column: "c_pool"}}})
		dep.Table.Columns = append(dep.Table.Columns, model.Col{Name: "log_addr", Type: "bytea"})
		if g.chance(50) {
			dep.FilterAgg = "and"
		}
	}
	if g.chance(50) {
		g.hashedDecl(dep)
	}
	p.Decls = append(p.Decls, dep)
	p.Content.Events = append(p.Content.Events, EventSpec{Event: dev})
	p.Content.LogMax = 4
	// referenced task not started at all (no runner) in some runs
	if g.chance(25) {
		k := g.R.IntN(nref)
		if g.chance(40) {
			// ... or switched off in the configuration: it records nothing, so
			// the dependent must do nothing either
			p.Decls[len(p.Decls)-1-nref+k].Enabled = false
		} else {
			p.Idle = append(p.Idle, sp.Name+"/"+fmt.Sprintf("ref%d", k))
		}
	}
}

// At every commit of a dependent to position n, every referenced pair on the
// same source has recorded a position >= n in that very snapshot.
func c05OnCommit(w *World, ps *pairState, ci *fakepg.CommitInfo) {
	if len(w.plan.Content.Late) > 0 {
		full := "public." + ps.decl.Table.Name
		if ts := ci.Snap.Table(full); ts != nil {
			for _, la := range w.plan.Content.Late {
				if ps.decl.Event == nil || ps.decl.Event.Name != la.Event.Name {
					continue
				}
				addr := decodeAddrs([]string{la.Addr})[0]
				ci2 := ts.Col(la.Event.Inputs[la.AddrInput].Column)
				for _, r := range ci.Inserted[full] {
					if ci2 >= 0 && ci2 < len(r.Vals) {
						if b, ok := r.Vals[ci2].([]byte); ok && bytes.Equal(b, addr) {
							w.mu.Lock()
							if w.lateSeen == nil {
								w.lateSeen = map[string]bool{}
							}
							w.lateSeen[la.Addr] = true
							w.mu.Unlock()
						}
					}
				}
			}
		}
	}
	deps := w.depsOf(ps.decl)
	if len(deps) == 0 || len(ci.Inserted[cursorTable]) == 0 {
		return
	}
	curs := w.cursorsOf(ci.Snap, ps)
	if len(curs) == 0 {
		return
	}
	n := curs[len(curs)-1].num
	for _, dn := range deps {
		onThisSource := false
		for _, o := range w.pairs {
			if o.decl.Name == dn && o.src == ps.src {
				onThisSource = true
			}
		}
		if !onThisSource {
			// the referenced integration does not index this source at all:
			// it never records any block of it, so the dependent must do nothing
			w.violate("dependent-ahead", "pair %s recorded block %d although the integration it references (%s) does not index source %s and so never records that block for the same source", ps.key, n, dn, ps.src.plan.Name)
			continue
		}
		for _, o := range w.pairs {
			if o.decl.Name != dn || o.src != ps.src {
				continue
			}
			oc := w.cursorsOf(ci.Snap, o)
			have := int64(-1)
			if len(oc) > 0 {
				have = oc[len(oc)-1].num
			}
			w.stat("probe_dependent_commit_checked", 1)
			if ps.src.node.Reorgs > 0 {
				// did the referenced pair hold a position below n at some
				// moment of this call (it unwound while the dependent's step
				// was in flight)? The dependent read the positions in its first
				// transaction and did its lookups in the second: in between the
				// referenced table lost the rows of the unwound blocks.
				lo := int64(1 << 62)
				cur := int64(-1)
				for _, ch := range o.curHist {
					if ch.seq <= ps.callStartSeq {
						cur = ch.num
					}
				}
				// (the referenced pair may also have reached n only after the
				// call began and before the dependent read the positions: what
				// counts is a position >= n followed, still within the call,
				// by one below n)
				lo = cur
				high := cur >= n
				fell := false
				for _, ch := range o.curHist {
					if ch.seq <= ps.callStartSeq {
						continue
					}
					if ch.num >= n {
						high = true
					} else if high {
						fell = true
						if ch.num < lo || lo >= n {
							lo = ch.num
						}
					}
				}
				if fell {
					w.stat("probe_lookup_during_referenced_unwind", 1)
					w.violate("lookup-during-referenced-unwind", "pair %s recorded block %d in a step during which the integration it references (%s) unwound to position %d: positions are read in the step's first transaction and the lookups run in the second, so the lookups saw a referenced table without the unwound blocks", ps.key, n, o.key, lo)
					// rows of this step may be missing for that reason: the row
					// comparisons of this pair say nothing further in this run
					w.markUnreliable(ps, ci, n)
				}
			}
			if len(oc) > 0 && ps.src.node.Reorgs > 0 {
				if tip := oc[len(oc)-1]; len(tip.hash) == 32 && tip.num >= 0 && !ps.src.node.IsCanonical(tip.hash) {
					// the referenced pair still sits on a replaced branch: its
					// table holds rows of orphaned blocks, and the dependent,
					// which compares block numbers only, did its lookups there
					w.stat("probe_lookup_against_replaced_branch", 1)
					if !ps.staleRefReported {
						w.violate("lookup-against-replaced-referenced-branch", "pair %s recorded block %d while the integration it references (%s) still held position %d of a replaced branch (hash %x): the dependency check compares block numbers only, so the lookups of this step ran against rows of orphaned blocks", ps.key, n, o.key, tip.num, tip.hash[:4])
					}
					if os.Getenv("VERIF_C05_NOGATE") == "" {
						w.markUnreliable(ps, ci, n)
					}
					ps.staleRefReported = true
				}
			}
			if have >= n {
				continue
			}
			if ps.src.node.Reorgs == 0 {
				w.violate("dependent-ahead", "pair %s recorded block %d although the integration it references (%s) has only recorded %d for the same source", ps.key, n, o.key, have)
				continue
			}
			// With replaced blocks a referenced integration may unwind while
			// the dependent's step is in flight; what the dependent may rely
			// on is a position the referenced pair held at some moment of this
			// very call (it reads the positions inside the call).
			best := int64(-1)
			for _, ch := range o.curHist {
				if ch.seq <= ps.callStartSeq {
					best = ch.num // in effect when the call started
				} else if ch.num > best {
					best = ch.num
				}
			}
			w.stat("probe_dependent_commit_checked_historical", 1)
			if best < n {
				w.violate("dependent-ahead", "pair %s recorded block %d although the integration it references (%s) never held a position above %d during that step (now %d): the dependent did not look at the recorded positions", ps.key, n, o.key, best, have)
			}
		}
	}
}

func c05OnOutcome(w *World, ps *pairState, err error) {
	deps := w.depsOf(ps.decl)
	if len(deps) == 0 {
		return
	}
	if outcomeName(err) == "nothing-new" {
		snap := w.srv.DB.Snapshot()
		if lim := w.depLimit(ps, snap); lim >= 0 && lim < int64(ps.src.node.HeadNum()) && ps.curNum >= lim {
			w.stat("probe_dependent_throttled", 1)
		}
	}
}

// c05AtEnd counts how often the situation the late addresses are there for was
// reached: an address entered a referenced table in a block that was replaced
// later by a version without it, and the dependent meets that address above
// that block on the chain that won.
func c05AtEnd(w *World) {
	if len(w.plan.Content.Late) == 0 {
		return
	}
	snap := w.srv.DB.Snapshot()
	look := w.lookupIn(snap)
	for _, la := range w.plan.Content.Late {
		addr := decodeAddrs([]string{la.Addr})[0]
		var refTable string
		for _, d := range w.plan.Decls {
			if d.Event != nil && d.Event.Name == la.Event.Name {
				refTable = d.Table.Name
			}
		}
		if refTable == "" {
			continue
		}
		w.mu.Lock()
		ever := w.lateSeen[la.Addr]
		w.mu.Unlock()
		if !ever {
			continue
		}
		w.stat("probe_late_address_entered_referenced_table", 1)
		if look(refTable, la.Event.Inputs[la.AddrInput].Column, addr) {
			continue
		}
		w.stat("probe_late_address_orphaned", 1)
		for _, ss := range w.sources() {
			for num := la.At + 1; num <= ss.node.HeadNum(); num++ {
				b := ss.node.Canonical(num)
				for ti := range b.Txs {
					for li := range b.Txs[ti].Logs {
						if tag, ok := b.Txs[ti].Logs[li].Tag.(*model.LogTag); ok && tag.Sig != model.Signature(la.Event) {
							for _, v := range tag.Values {
								if v.Type == "address" && bytes.Equal(v.Bytes, addr) {
									w.stat("probe_late_address_met_after_orphaned", 1)
								}
							}
						}
					}
				}
			}
		}
	}
}

// markUnreliable: the blocks recorded by this step of ps (everything above the
// pair's previous position up to n) did their reference lookups in one of the
// two situations the known findings describe; row equality says nothing about
// those blocks until the pair unwinds below them and indexes them again.
func (w *World) markUnreliable(ps *pairState, ci *fakepg.CommitInfo, n int64) {
	curs := w.cursorsOf(ci.Snap, ps)
	from := ps.origin
	if len(curs) >= 2 {
		from = curs[len(curs)-2].num + 1
	}
	if from < 0 {
		from = 0
	}
	if ps.unreliable == nil {
		ps.unreliable = map[int64]bool{}
	}
	for b := from; b <= n; b++ {
		ps.unreliable[b] = true
	}
}
