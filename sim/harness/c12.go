package harness

import (
	"bytes"
	"encoding/hex"
	"fmt"
	"strings"

	"verifsim/model"
	"verifsim/node"
)

func init() {
	Generators["C12"] = GenC12
	Extras["C12"] = func(p *Plan) Extra { return Extra{AtEnd: c12Pushdown} }
}

func (g *G) intArg(bits int) string {
	switch g.R.IntN(4) {
	case 0:
		return "0"
	case 1:
		return "1"
	case 2:
		return randInt(g.R, bits, false).String()
	}
	return "2"
}

// filterFor builds a filter for a value kind: "bytes" (addresses, hashes,
// byte strings), "string", "uint" (64/256-bit unsigned).
func (g *G) filterFor(kind string, bits int, addrs []string) *model.Filter {
	switch kind {
	case "bytes":
		op := g.pick([]string{"contains", "!contains", "eq", "ne"})
		n := g.between(1, 2)
		if g.chance(12) {
			// a long list (more arguments than any small chunk size)
			n = g.between(9, 23)
		}
		var args []string
		for i := 0; i < n; i++ {
			a := addrs[g.R.IntN(len(addrs))]
			if n > 2 && i >= len(addrs) && g.chance(70) {
				a = g.addr()
			} else if n > 2 && i < len(addrs) {
				a = addrs[i] // every pool address once, somewhere in the list
			}
			switch g.R.IntN(4) {
			case 0:
				// as a checksummed address is written: mixed case
				b := []byte(a)
				for k := 2; k < len(b); k++ {
					if g.chance(50) && b[k] >= 'a' && b[k] <= 'f' {
						b[k] -= 32
					}
				}
				a = string(b)
			case 1:
				a = "0x" + strings.ToUpper(a[2:])
			}
			args = append(args, a)
		}
		return &model.Filter{Op: op, Arg: args}
	case "string":
		op := g.pick([]string{"contains", "!contains", "eq", "ne"})
		args := []string{g.pick([]string{"", "a", "abc"})}
		if g.chance(40) {
			args = append(args, "zz")
		}
		return &model.Filter{Op: op, Arg: args}
	default:
		op := g.pick([]string{"eq", "ne", "gt", "lt"})
		return &model.Filter{Op: op, Arg: []string{g.intArg(bits)}}
	}
}

// GenC12 — operator x value kind x argument count x aggregation, on event
// inputs and block fields including the log address.
func GenC12(seed uint64) *Plan {
	g := NewG(seed)
	p := g.basePlan("C12", seed)
	sp := &p.Sources[0]
	if sp.Batch < sp.Conc {
		sp.Batch, sp.Conc = sp.Conc, sp.Batch
	}
	sp.InitLen = g.between(10, 24)
	p.Content.TxMax, p.Content.LogMax, p.Content.EmptyPct = 3, 4, 10
	d := &model.Decl{Name: "ig0", Enabled: true, Sources: []model.SrcRef{{Name: sp.Name, Start: uint64(g.between(1, 4))}}}
	d.Table.Name = "t_ig0"
	addCol := func(n, t string) { d.Table.Columns = append(d.Table.Columns, model.Col{Name: n, Type: t}) }
	logMode := g.chance(80)
	nflt := 0
	transferShape := false
	if logMode {
		ev := &model.Event{Name: g.pick(eventNames), Type: "event"}
		types := []string{"address", "uint256", "uint64", "bytes32", "string", "address", "uint8"}
		nIdx := 0
		withRef := g.chance(25)
		secondRef := false
		nestedRef := false
		_ = nestedRef
		arrayAt := -1
		nin := g.between(2, 4)
		if g.chance(25) {
			arrayAt = g.R.IntN(nin)
		}
		// the Transfer shape: an indexed input that is not stored, then an
		// indexed address that is stored and filtered by whole addresses
		transferShape = g.chance(15)
		if transferShape {
			arrayAt, withRef = -1, false
		}
		for i := 0; i < nin; i++ {
			in := model.Input{Name: fmt.Sprintf("a%d", i), Type: g.pick(types), Column: fmt.Sprintf("c_a%d", i)}
			if transferShape && i < 2 {
				in.Type, in.Indexed = "address", true
				nIdx++
				if i == 0 {
					in.Column = ""
				} else {
					in.Filter = &model.Filter{Op: g.pick([]string{"contains", "eq"}), Arg: []string{p.Content.Addrs[g.R.IntN(len(p.Content.Addrs))]}}
					nflt++
					addCol(in.Column, "bytea")
				}
				ev.Inputs = append(ev.Inputs, in)
				continue
			}
			if i == arrayAt {
				// a selected array with a filter on its elements: one row per
				// element, each accepted or rejected on its own
				el := g.pick([]string{"uint64", "uint256", "address", "uint8"})
				in.Type = el + g.pick([]string{"[]", "[]", "[3]"})
				if strings.HasPrefix(el, "uint") {
					in.Filter = g.filterFor("uint", bitsOf(el, "uint"), nil)
				} else {
					in.Filter = g.filterFor("bytes", 0, p.Content.Addrs)
				}
				nflt++
				addCol(in.Column, ABIColType(in.Type))
				ev.Inputs = append(ev.Inputs, in)
				continue
			}
			if in.Type != "string" && nIdx < 3 && g.chance(40) {
				in.Indexed = true
				nIdx++
			}
			if withRef && in.Type == "address" {
				// a lookup in another integration's table instead of arguments
				withRef = false
				in.Filter = &model.Filter{Op: g.pick([]string{"contains", "contains", "!contains"}), Ref: &model.Ref{Integration: "ref0", Column: "c_pool"}}
				nflt++
				refEv := &model.Event{Name: "Created0", Type: "event", Inputs: []model.Input{
					{Name: "pool", Type: "address", Indexed: g.chance(50), Column: "c_pool"},
					{Name: "x", Type: "uint256", Column: "c_x"},
				}}
				rd := &model.Decl{Name: "ref0", Enabled: true, Event: refEv, Sources: []model.SrcRef{{Name: sp.Name, Start: 1}}}
				rd.Table.Name = "t_ref0"
				rd.Table.Columns = []model.Col{{Name: "c_pool", Type: "bytea"}, {Name: "c_x", Type: "numeric"}}
				p.Decls = append(p.Decls, rd)
				p.Content.Events = append(p.Content.Events, EventSpec{Event: refEv})
				p.Content.Seeded = append(p.Content.Seeded, SeededLogs{Event: refEv, AddrInput: 0, UpTo: 3, Only: []int{0, 1}})
				p.Checks["deps"] = true
				if !in.Indexed && g.chance(35) {
					// the looked-up address sits inside a tuple
					inner := in
					inner.Name = in.Name + "c0"
					in = model.Input{Name: in.Name, Type: g.pick([]string{"tuple", "(address,uint64)"}), Components: []model.Input{
						inner,
						{Name: in.Name + "c1", Type: "uint64", Column: "c_" + in.Name + "c1"},
					}}
					addCol("c_"+in.Name+"c1", "numeric")
					addCol(inner.Column, "bytea")
					nestedRef = true
				}
				if g.chance(50) {
					// a second referenced table with a column of the same name
					// and another membership, looked up by another field
					refEv1 := &model.Event{Name: "Created1", Type: "event", Inputs: []model.Input{
						{Name: "pool", Type: "address", Indexed: g.chance(50), Column: "c_pool"},
						{Name: "x", Type: "uint256", Column: "c_x"},
					}}
					rd1 := &model.Decl{Name: "ref1", Enabled: true, Event: refEv1, Sources: []model.SrcRef{{Name: sp.Name, Start: 1}}}
					rd1.Table.Name = "t_ref1"
					rd1.Table.Columns = []model.Col{{Name: "c_pool", Type: "bytea"}, {Name: "c_x", Type: "numeric"}}
					p.Decls = append(p.Decls, rd1)
					p.Content.Events = append(p.Content.Events, EventSpec{Event: refEv1})
					p.Content.Seeded = append(p.Content.Seeded, SeededLogs{Event: refEv1, AddrInput: 0, UpTo: 3, Only: []int{1, 2}})
					secondRef = true
				}
				if in.Column != "" {
					addCol(in.Column, ABIColType(in.Type))
				}
				ev.Inputs = append(ev.Inputs, in)
				continue
			}
			if g.chance(55) {
				switch {
				case in.Type == "string":
					in.Filter = g.filterFor("string", 0, nil)
				case strings.HasPrefix(in.Type, "uint"):
					in.Filter = g.filterFor("uint", bitsOf(in.Type, "uint"), nil)
				case in.Type == "address":
					in.Filter = g.filterFor("bytes", 0, p.Content.Addrs)
				default:
					in.Filter = nil
				}
				if in.Filter != nil {
					nflt++
				}
			}
			if in.Filter == nil && i < nin-1 && g.chance(30) {
				// an input that is not stored (it still takes its place among
				// the indexed inputs / in the data)
				in.Column = ""
				ev.Inputs = append(ev.Inputs, in)
				continue
			}
			addCol(in.Column, ABIColType(in.Type))
			ev.Inputs = append(ev.Inputs, in)
		}
		d.Event = ev
		p.Content.Events = append(p.Content.Events, EventSpec{Event: ev})
		p.Content.Events = append(p.Content.Events, g.Decoys(ev)...)
		if g.chance(60) || secondRef {
			f := model.Field{Name: "log_addr", Column: "log_addr"}
			if secondRef {
				f.Filter = &model.Filter{Op: g.pick([]string{"contains", "contains", "!contains"}), Ref: &model.Ref{Integration: "ref1", Column: "c_pool"}}
				nflt++
			} else if p.Checks["deps"] && g.chance(50) {
				// a second filter that looks up the very same integration and column
				f.Filter = &model.Filter{Op: g.pick([]string{"contains", "contains", "!contains"}), Ref: &model.Ref{Integration: "ref0", Column: "c_pool"}}
				nflt++
			} else if g.chance(80) {
				f.Filter = g.filterFor("bytes", 0, p.Content.Addrs)
				nflt++
			}
			d.Block = append(d.Block, f)
			addCol("log_addr", "bytea")
		}
	}
	for _, fn := range []string{"tx_to", "tx_signer", "tx_value", "tx_nonce", "block_num", "tx_idx", "tx_status", "tx_gas_used"} {
		if !g.chance(25) {
			continue
		}
		f := model.Field{Name: fn, Column: fn}
		if g.chance(60) || (!logMode && nflt == 0) {
			switch fn {
			case "tx_to", "tx_signer":
				f.Filter = g.filterFor("bytes", 0, p.Content.Addrs)
			case "tx_value":
				f.Filter = g.filterFor("uint", 128, nil)
			case "tx_nonce":
				f.Filter = g.filterFor("uint", 32, nil)
			case "block_num":
				f.Filter = &model.Filter{Op: g.pick([]string{"gt", "lt", "ne", "eq"}), Arg: []string{fmt.Sprint(g.between(2, sp.InitLen))}}
			case "tx_idx":
				f.Filter = &model.Filter{Op: g.pick([]string{"gt", "lt", "ne", "eq"}), Arg: []string{fmt.Sprint(g.between(0, 2))}}
			default:
				// receipt fields carry no filter here: they only change the data
				// plan (logs then come with the receipts, unrestricted by address)
				nflt--
			}
			nflt++
		}
		d.Block = append(d.Block, f)
		if fn != "block_num" && fn != "tx_idx" {
			addCol(fn, FieldType[fn])
		}
	}
	if !logMode && len(d.Block) == 0 {
		d.Block = append(d.Block, model.Field{Name: "tx_to", Column: "tx_to", Filter: g.filterFor("bytes", 0, p.Content.Addrs)})
		addCol("tx_to", "bytea")
	}
	if g.chance(50) {
		d.FilterAgg = g.pick([]string{"and", "or"})
	}
	if transferShape && nflt > 1 && g.chance(70) {
		d.FilterAgg = "and"
	}
	p.Decls = append(p.Decls, d)
	g.ensureEvents(p)
	// transactions to/from pool addresses so that byte-string filters hit
	p.Content.PoolTxPct = 50
	if g.chance(30) {
		g.transientFaults(p)
		p.Faults.Stall, p.Faults.JumpPerMille = false, 0
		p.Faults.HealAt = g.between(50, 300)
	} else {
		p.Faults.HealAt = 0
	}
	p.Checks["input_driven"] = true
	p.MaxSteps = 3000
	return p
}

// c12Pushdown: for every eth_getLogs request the node recorded, every log in
// its block range that the declared filters accept satisfies the request's
// address/topic restriction (server-side pre-filtering never excludes an
// acceptable log). Independent of the rows.
func c12Pushdown(w *World) {
	for _, ps := range w.pairs {
		d := w.resolvedDecl(ps.decl)
		if d.Mode() != model.ModeLog {
			continue
		}
		sig := model.SigHash(d.Event)
		sigHex := hex.EncodeToString(sig)
		src := model.SrcInfo{Name: ps.src.plan.Name, ChainID: ps.src.plan.ChainID}
		n := ps.src.node
		snap := w.srv.DB.Snapshot()
		checked := 0
		for _, rq := range n.Reqs {
			if rq.Method != "eth_getLogs" || len(rq.Topics) == 0 || len(rq.Topics[0]) == 0 || rq.Topics[0][0] != sigHex {
				continue
			}
			for num := rq.From; num <= rq.To; num++ {
				b := n.Canonical(num)
				if b == nil {
					break
				}
				rows, err := model.ProjectBlockLogs(d, src, b, w.lookupIn(snap))
				if err != nil {
					w.harnessFail("model: %v", err)
					return
				}
				for _, al := range rows {
					checked++
					if !node.MatchLog(al, rq.Addrs, rq.Topics) {
						w.violate("pushdown-excludes-accepted-log", "eth_getLogs for blocks %d..%d restricted to addresses %v, which excludes the log (block %d, index %d, address %x) that the declared filters accept", rq.From, rq.To, rq.Addrs, b.Num, al.Idx, al.Addr)
						return
					}
				}
			}
		}
		w.stat("probe_pushdown_logs_checked", checked)
		_ = bytes.Equal
	}
}
