package harness

import (
	"bytes"
	"context"
	"encoding/json"
	"fmt"
	"io"
	"net/http"
	"strings"
	"sync"
	"testing"
	"time"

	"verifsim/core"
	"verifsim/node"

	"github.com/indexsupply/shovel/eth"
	"github.com/indexsupply/shovel/jrpc2"
)

// Free-running layer of C08. The strict scheduler grants the hooked cache and
// segment locks by rules that encode the blocking behaviour of the current
// code (a caller cannot enter the cache while a segment of it is being
// fetched), so a change that makes one of those locks non-blocking is invisible
// to it. Here nothing is hooked: real goroutines call the real caching client
// against the frozen node over a transport that answers after a short real
// delay (so that fetches are in flight when other callers arrive), real
// mutexes do all the blocking and the Go scheduler decides the interleaving.
// The oracle only uses facts that hold for every interleaving: every
// successful Get equals the node's data, no Get fails (no faults are
// injected), and per segment key successful reads <= upstream fetches x
// max-reads when all callers are done.

type c08FreeStats struct {
	mu    sync.Mutex
	fills map[string]int
	reads map[string]int
}

var c08FreeRT func(req *http.Request, body []byte) (*http.Response, error)

func RunC08Free(t *testing.T, plan *Plan, st *core.Stream, extra Extra, keepLog bool) (res *Result) {
	installHooks()
	cs := plan.C08
	res = &Result{Prop: "C08", Seed: plan.Seed, Stats: map[string]int{}, PlanDigest: fmt.Sprintf("free maxreads=%d callers=%d", cs.MaxReads, len(cs.Callers))}
	sp := plan.Sources[0]
	n := node.New(sp.Name, sp.ChainID, plan.Seed, MakeFiller(plan, sp.Name))
	n.Grow(sp.InitLen)
	n.Quiet = true
	fs := &c08FreeStats{fills: map[string]int{}, reads: map[string]int{}}
	var vmu sync.Mutex
	violate := func(class, format string, a ...any) {
		vmu.Lock()
		defer vmu.Unlock()
		if len(res.Violations) < 10 {
			res.Violations = append(res.Violations, Violation{Class: class, Msg: fmt.Sprintf(format, a...)})
		}
	}
	g := NewG(plan.Seed ^ 0xf7ee)
	var dmu sync.Mutex
	directMu.Lock()
	defer directMu.Unlock()
	c08FreeRT = func(req *http.Request, body []byte) (*http.Response, error) {
		reqs, batch, err := node.ParseBody(body)
		if err != nil {
			return nil, err
		}
		// which segment does this exchange fill?
		if len(reqs) > 0 && reqs[0].Method == "eth_getBlockByNumber" && !(len(reqs) == 2 && reqs[1].Method == "eth_getLogs") {
			var first string
			full := false
			json.Unmarshal(reqs[0].Params[0], &first)
			if len(reqs[0].Params) > 1 {
				json.Unmarshal(reqs[0].Params[1], &full)
			}
			if first != "latest" {
				start, _ := parseHexU(first)
				fs.mu.Lock()
				fs.fills[segKey(full, start, uint64(len(reqs)))]++
				fs.mu.Unlock()
			}
		}
		dmu.Lock()
		d := time.Duration(g.between(20, 400)) * time.Microsecond
		dmu.Unlock()
		time.Sleep(d)
		replies := n.Serve("c08free", reqs, nil)
		var rb []byte
		if batch {
			rb, _ = json.Marshal(replies)
		} else {
			rb, _ = json.Marshal(replies[0])
		}
		return &http.Response{Status: "200", StatusCode: 200, Proto: "HTTP/1.1", ProtoMajor: 1, ProtoMinor: 1,
			Header: http.Header{"Content-Type": []string{"application/json"}}, Body: io.NopCloser(bytes.NewReader(rb)), ContentLength: int64(len(rb)), Request: req}, nil
	}
	defer func() { c08FreeRT = nil }()
	url := "http://c08free.sim"
	cl := jrpc2.New(url).WithMaxReads(cs.MaxReads).WithPollDuration(time.Hour)
	var wg sync.WaitGroup
	ngets := 0
	for ci, ops := range cs.Callers {
		for _, op := range ops {
			if op.Kind == "get" {
				ngets++
			}
		}
		wg.Add(1)
		go func(ci int, ops []C08Op) {
			defer wg.Done()
			defer func() {
				if r := recover(); r != nil {
					violate(panicClass(r), "caller %d panicked: %v", ci, r)
				}
			}()
			for _, op := range ops {
				if op.Kind != "get" {
					continue
				}
				f, addrs := c08Filter(plan, op)
				var blocks []eth.Block
				blocks, err := cl.Get(context.Background(), url, f, op.Start, op.Limit)
				if err != nil {
					violate("error-without-fault", "Get(%s,%d,%d) failed (%v) although no fault was injected", op.Flags, op.Start, op.Limit, err)
					continue
				}
				key := segKey(strings.Contains(op.Flags, "b"), op.Start, op.Limit)
				fs.mu.Lock()
				fs.reads[key]++
				fs.mu.Unlock()
				if msg := c08Check(n, op, addrs, blocks); msg != "" {
					violate("cache-wrong-data", "Get(%s,%d,%d) through the cache: %s", op.Flags, op.Start, op.Limit, msg)
				}
			}
		}(ci, ops)
	}
	wg.Wait()
	fs.mu.Lock()
	for key, r := range fs.reads {
		if r > fs.fills[key]*cs.MaxReads {
			violate("segment-overserved", "segment %s has served %d reads from %d upstream fetches (max reads %d)", key, r, fs.fills[key], cs.MaxReads)
		}
		res.Stats["c08_reads"] += r
		res.Stats["c08_fills"] += fs.fills[key]
		if r > fs.fills[key] {
			res.Stats["c08_cache_served"] += r - fs.fills[key]
		}
	}
	fs.mu.Unlock()
	res.Steps = ngets
	res.Stats["free_runs"] = 1
	res.LogHash = fmt.Sprintf("free-%016x", plan.Seed)
	res.StateHash = res.LogHash
	res.Decisions = st.Recorded()
	res.NDecisions = len(res.Decisions)
	res.NonTrivial = res.Stats["c08_cache_served"] > 0
	return res
}
