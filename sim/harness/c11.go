package harness

import (
	"fmt"
	"strings"

	"verifsim/model"
)

func init() {
	Generators["C11"] = GenC11
}

var allIntTypes = []string{"uint8", "uint16", "uint24", "uint32", "uint64", "uint96", "uint128", "uint160", "uint248", "uint256", "int8", "int16", "int24", "int32", "int64", "int128", "int256", "address", "bool", "bytes32", "bytes1", "bytes20"}

// c11Event: every mix of indexed / non-indexed x selected / unselected inputs
// in every order, all integer widths, with and without non-indexed inputs
// (logs with and without data).
func (g *G) c11Event(name string) *model.Event {
	n := g.between(1, 5)
	ev := &model.Event{Name: name, Type: "event"}
	nIdx := 0
	allIndexed := g.chance(25) // logs without data
	for i := 0; i < n; i++ {
		in := model.Input{Name: fmt.Sprintf("a%d", i), Type: g.pick(allIntTypes)}
		if (allIndexed || g.chance(45)) && nIdx < 3 {
			in.Indexed = true
			nIdx++
		} else if allIndexed {
			break
		}
		if !in.Indexed {
			switch g.R.IntN(12) {
			case 0:
				in.Type = "string"
			case 1:
				in.Type = "bytes"
			case 2:
				in.Type = g.pick([]string{"uint256", "address", "int64", "bytes32", "bool", "uint8"}) + g.pick([]string{"[]", "[]", "[2]", "[3]", "[10]", "[12]"})
			case 3:
				// an array of dynamic elements, never selected: it only has to
				// be stepped over correctly
				in.Type = g.pick([]string{"bytes", "string"}) + g.pick([]string{"[]", "[2]", "[1]"})
				ev.Inputs = append(ev.Inputs, in)
				continue
			case 4:
				// a tuple of static components, selected inside; a component may
				// bear the name of a top-level input (names are compared on the
				// top level only)
				in.Type = "tuple"
				for k := 0; k < g.between(1, 3); k++ {
					c := model.Input{Name: fmt.Sprintf("a%dc%d", i, k), Type: g.pick(allIntTypes)}
					if i > 0 && g.chance(50) {
						c.Name = ev.Inputs[g.R.IntN(i)].Name
					}
					if g.chance(70) {
						c.Column = fmt.Sprintf("k%d_%d_%s", i, k, g.pick([]string{"x", "val", "who", "amt"}))
					}
					in.Components = append(in.Components, c)
				}
				ev.Inputs = append(ev.Inputs, in)
				continue
			}
		}
		if g.chance(60) {
			in.Column = fmt.Sprintf("k%d_%s", i, g.pick([]string{"x", "val", "who", "amt"}))
		}
		ev.Inputs = append(ev.Inputs, in)
	}
	if !hasSelected(ev) {
		for _, i := range g.R.Perm(len(ev.Inputs)) {
			if t := ev.Inputs[i].Type; t != "tuple" && !strings.HasPrefix(t, "bytes[") && !strings.HasPrefix(t, "string[") {
				ev.Inputs[i].Column = fmt.Sprintf("k%d_sel", i)
				break
			}
		}
	}
	// at most one selected array
	seen := false
	for i := range ev.Inputs {
		if ev.Inputs[i].Column != "" && len(ev.Inputs[i].Type) > 2 && ev.Inputs[i].Type[len(ev.Inputs[i].Type)-1] == ']' {
			if seen {
				ev.Inputs[i].Column = ""
			}
			seen = true
		}
	}
	if !hasSelected(ev) {
		if t := ev.Inputs[0].Type; t == "tuple" {
			ev.Inputs[0].Components[0].Column = "k0_sel"
		} else if strings.HasPrefix(t, "bytes[") || strings.HasPrefix(t, "string[") {
			ev.Inputs[0].Type = "uint256"
			ev.Inputs[0].Column = "k0_sel"
		} else {
			ev.Inputs[0].Column = "k0_sel"
		}
	}
	return ev
}

// GenC11 — each column receives the value of the field it names.
func GenC11(seed uint64) *Plan {
	g := NewG(seed)
	p := g.basePlan("C11", seed)
	sp := &p.Sources[0]
	if sp.Batch < sp.Conc {
		sp.Batch, sp.Conc = sp.Conc, sp.Batch
	}
	sp.InitLen = g.between(8, 20)
	nd := 1
	if g.chance(35) {
		nd = 2 // a second integration sharing the source client's caches
	}
	for i := 0; i < nd; i++ {
		mode := model.ModeLog
		switch r := g.R.IntN(100); {
		case r < 20:
			mode = model.ModeTx
		case r < 35:
			mode = model.ModeTrace
		}
		d := &model.Decl{Name: fmt.Sprintf("ig%d", i), Enabled: true, Sources: []model.SrcRef{{Name: sp.Name, Start: uint64(g.between(1, sp.InitLen-1))}}}
		d.Table.Name = "t_" + d.Name
		var fields []string
		switch mode {
		case model.ModeLog:
			d.Event = g.c11Event(g.pick(eventNames))
			for _, in := range d.SelectedInputs() {
				d.Table.Columns = append(d.Table.Columns, model.Col{Name: in.Column, Type: ABIColType(in.Type)})
			}
			fields = logSafeFields
			p.Content.Events = append(p.Content.Events, EventSpec{Event: d.Event})
			p.Content.Events = append(p.Content.Events, g.Decoys(d.Event)...)
		case model.ModeTx:
			fields = txSafeFields
		case model.ModeTrace:
			fields = traceSafeFields
			p.Content.MinTx, p.Content.MinTraces = 1, 1
		}
		nf := g.between(0, 5)
		if mode != model.ModeLog && nf == 0 {
			nf = 2
		}
		for _, pi := range g.R.Perm(len(fields)) {
			if nf == 0 {
				break
			}
			f := fields[pi]
			col := f
			if g.chance(50) {
				col = fmt.Sprintf("c%d_%s", pi, g.pick([]string{"data", "v", "h", "trace_x", "who"})) // names independent of the field
				if g.chance(25) {
					col = fmt.Sprintf("trace_c%d", pi) // a column may be called anything, also trace_*
				}
			}
			d.Block = append(d.Block, model.Field{Name: f, Column: col})
			d.Table.Columns = append(d.Table.Columns, model.Col{Name: col, Type: FieldType[f]})
			nf--
		}
		if mode == model.ModeTrace {
			has := false
			for _, f := range d.Block {
				if len(f.Name) > 6 && f.Name[:6] == "trace_" {
					has = true
				}
			}
			if !has {
				d.Block = append(d.Block, model.Field{Name: "trace_action_from", Column: "c_from"})
				d.Table.Columns = append(d.Table.Columns, model.Col{Name: "c_from", Type: "bytea"})
			}
		}
		// random column order in the table definition
		g.R.Shuffle(len(d.Table.Columns), func(a, b int) {
			d.Table.Columns[a], d.Table.Columns[b] = d.Table.Columns[b], d.Table.Columns[a]
		})
		p.Decls = append(p.Decls, d)
	}
	g.ensureEvents(p)
	p.Content.TxMax, p.Content.LogMax = 3, 4
	if g.chance(50) {
		g.transientFaults(p)
		p.Faults.Stall = false
		p.Faults.JumpPerMille = 0
		p.Faults.HealAt = g.between(50, 400)
	} else {
		p.Faults.HealAt = 0
	}
	p.Checks["input_driven"] = true
	p.MaxSteps = 3000
	return p
}
