package harness

import (
	"fmt"
	"sort"
	"strings"
	"sync"
	"testing"

	"verifsim/model"
)

// C14 — every selectable field is actually fetched. Exhaustive layer: every
// field name the row builder understands, alone and in every pair, with and
// without an event declaration; then random larger sets by membership class.
// In-domain = every field is defined for the indexed item kind
// (log > receipt > transaction > block; trace > transaction > block).

var c14Block = []string{"block_hash", "block_num", "block_time", "chain_id", "ig_name", "src_name"}
var c14Tx = []string{"tx_hash", "tx_idx", "tx_signer", "tx_to", "tx_value", "tx_input", "tx_type", "tx_nonce", "tx_gas_price", "tx_max_priority_fee_per_gas", "tx_max_fee_per_gas"}
var c14Receipt = []string{"tx_status", "tx_gas_used", "tx_effective_gas_price", "tx_contract_address"}
var c14Log = []string{"log_idx", "log_addr"}
var c14Trace = []string{"trace_action_call_type", "trace_action_idx", "trace_action_from", "trace_action_to", "trace_action_value"}

type c14Decl struct {
	event  bool
	fields []string
	// random layer only: keep the drawn field order, and filter log_addr with
	// a condition that cannot be handed to the node (an exclusion)
	keepOrder  bool
	addrFilter *model.Filter
}

var (
	c14Once  sync.Once
	c14Cases []c14Decl
)

func c14Init() {
	c14Once.Do(func() {
		add := func(event bool, fs ...string) {
			c14Cases = append(c14Cases, c14Decl{event: event, fields: append([]string(nil), fs...)})
		}
		pairs := func(event bool, pool []string, need func(a, b string) bool) {
			for i, a := range pool {
				if need(a, "") {
					add(event, a)
				}
				for _, b := range pool[i+1:] {
					if need(a, b) {
						add(event, a, b)
					}
				}
			}
		}
		any := func(a, b string) bool { return true }
		// log mode (event with a selected input): block, tx, receipt and log fields
		var logPool []string
		logPool = append(logPool, c14Block...)
		logPool = append(logPool, c14Tx...)
		logPool = append(logPool, c14Receipt...)
		logPool = append(logPool, c14Log...)
		pairs(true, logPool, any)
		// transaction mode: block, tx and receipt fields
		var txPool []string
		txPool = append(txPool, c14Block...)
		txPool = append(txPool, c14Tx...)
		txPool = append(txPool, c14Receipt...)
		pairs(false, txPool, any)
		// trace mode: at least one trace field; block and tx fields
		var trPool []string
		trPool = append(trPool, c14Trace...)
		trPool = append(trPool, c14Block...)
		trPool = append(trPool, c14Tx...)
		isTrace := func(s string) bool { return strings.HasPrefix(s, "trace_") }
		pairs(false, trPool, func(a, b string) bool { return isTrace(a) || isTrace(b) })
	})
}

func c14Plan(cs c14Decl, seed uint64, note string) *Plan {
	p := &Plan{Prop: "C14", Seed: 0xC14 + seed, Checks: map[string]bool{}, Note: note}
	p.Sources = []SourcePlan{{Name: "s0", ChainID: 4242, NURLs: 1, Batch: 2, Conc: 1, PollMs: 1000, InitLen: 7}}
	p.Content = ContentPlan{TxMax: 2, MinTx: 1, LogMax: 2, TraceMax: 2, MinTraces: 1, EmptyPct: 0, Distinct: true,
		Addrs: []string{"0x00000000000000000000000000000000000000a1"}, Events: []EventSpec{{Event: transferEvent()}}}
	p.Checks["input_driven"] = true
	p.MaxSteps = 800
	p.Faults.HealAt = 0
	d := &model.Decl{Name: "ig0", Enabled: true, Sources: []model.SrcRef{{Name: "s0", Start: 3}}}
	d.Table.Name = "t_ig0"
	if cs.event {
		d.Event = transferEvent()
		d.Table.Columns = []model.Col{{Name: "c_from", Type: "bytea"}, {Name: "c_to", Type: "bytea"}, {Name: "c_v", Type: "numeric"}}
		p.Content.LogMax = 2
		p.Content.MinLogs = 1
	}
	fs := append([]string(nil), cs.fields...)
	if !cs.keepOrder {
		sort.Strings(fs)
	}
	for _, f := range fs {
		fl := model.Field{Name: f, Column: f}
		if f == "log_addr" && cs.addrFilter != nil {
			fl.Filter = cs.addrFilter
		}
		d.Block = append(d.Block, fl)
		d.Table.Columns = append(d.Table.Columns, model.Col{Name: f, Type: FieldType[f]})
	}
	p.Decls = []*model.Decl{d}
	return p
}

func C14Indexed(t *testing.T, i int, seedBase uint64) (*Plan, bool) {
	c14Init()
	if i < len(c14Cases) {
		cs := c14Cases[i]
		p := c14Plan(cs, 0, fmt.Sprintf("event=%v fields=%v", cs.event, cs.fields))
		p.Checks["enumerated"] = true
		return p, true
	}
	// random larger sets by membership class
	seed := RunSeed(seedBase, "C14", i)
	g := NewG(seed)
	var cs c14Decl
	var pool []string
	switch g.R.IntN(3) {
	case 0:
		cs.event = true
		pool = append(append(append(append(pool, c14Block...), c14Tx...), c14Receipt...), c14Log...)
	case 1:
		pool = append(append(append(pool, c14Block...), c14Tx...), c14Receipt...)
	default:
		pool = append(append(pool, c14Block...), c14Tx...)
		cs.fields = append(cs.fields, c14Trace[g.R.IntN(len(c14Trace))])
		pool = append(pool, c14Trace...)
	}
	n := g.between(3, 9)
	for _, pi := range g.R.Perm(len(pool)) {
		if n == 0 {
			break
		}
		dup := false
		for _, f := range cs.fields {
			if f == pool[pi] {
				dup = true
			}
		}
		if !dup {
			cs.fields = append(cs.fields, pool[pi])
			n--
		}
	}
	cs.keepOrder = g.chance(60)
	if cs.event && g.chance(40) {
		has := false
		for _, f := range cs.fields {
			has = has || f == "log_addr"
		}
		if !has {
			at := g.R.IntN(len(cs.fields) + 1)
			cs.fields = append(cs.fields[:at:at], append([]string{"log_addr"}, cs.fields[at:]...)...)
		}
		// every generated log comes from ...a1, so an exclusion of another
		// address keeps them all
		cs.addrFilter = &model.Filter{Op: g.pick([]string{"ne", "!contains"}), Arg: []string{"0x00000000000000000000000000000000000000b2"}}
	}
	p := c14Plan(cs, seed, fmt.Sprintf("random event=%v fields=%v keepOrder=%v addrFilter=%v", cs.event, cs.fields, cs.keepOrder, cs.addrFilter != nil))
	p.Seed = seed
	if g.chance(30) {
		// the table definition spells out columns of automatically required
		// fields (no block entry for them): they are requested and written all
		// the same
		d := p.Decls[0]
		for _, idc := range []string{"ig_name", "src_name", "block_num", "tx_idx", "log_idx"} {
			has := false
			for _, c := range d.Table.Columns {
				has = has || c.Name == idc
			}
			if has || (idc == "log_idx" && !cs.event) || !g.chance(60) {
				continue
			}
			d.Table.Columns = append(d.Table.Columns, model.Col{Name: idc, Type: FieldType[idc]})
			p.Note += " +col:" + idc
		}
	}
	if g.chance(45) {
		// a second integration on the same source and range with a data plan
		// of its own: whatever one plan leaves in the source client's caches
		// must not change what the other one stores
		var cs2 c14Decl
		var pool2 []string
		switch g.R.IntN(3) {
		case 0:
			cs2.event = true
			pool2 = append(append(append(pool2, c14Block...), c14Log...), "tx_hash", "tx_idx")
		case 1:
			pool2 = append(append(pool2, c14Block...), c14Tx...)
		default:
			pool2 = append(append(append(pool2, c14Block...), c14Tx...), c14Receipt...)
		}
		for _, pi := range g.R.Perm(len(pool2))[:g.between(1, 4)] {
			cs2.fields = append(cs2.fields, pool2[pi])
		}
		if !cs2.event && len(cs2.fields) == 0 {
			cs2.fields = []string{"block_time"}
		}
		q := c14Plan(cs2, seed, "")
		d2 := q.Decls[0]
		d2.Name = "ig1"
		d2.Table.Name = "t_ig1"
		p.Decls = append(p.Decls, d2)
		if cs2.event {
			p.Content.LogMax, p.Content.MinLogs = 2, 1
		}
		p.Sources[0].Batch = g.between(1, 3)
		p.Note += fmt.Sprintf(" + second event=%v fields=%v", cs2.event, cs2.fields)
	}
	return p, true
}

func init() {
	Indexed["C14"] = C14Indexed
	EnumSize["C14"] = func(t *testing.T) int { c14Init(); return len(c14Cases) }
	Extras["C14"] = func(p *Plan) Extra {
		return Extra{AtEnd: func(w *World) {
			if p.Checks["enumerated"] {
				w.stat("enum_case", 1)
			}
			// non-vacuity: the run must have stored rows
			n := 0
			for _, ps := range w.pairs {
				_, rows := w.dataRowsOf(w.srv.DB.Snapshot(), ps)
				n += len(rows)
			}
			if n == 0 && len(w.viol) == 0 && w.harnessErr == "" {
				w.violate("no-rows", "declaration %s stored no row at all over blocks that contain matching items", p.Note)
			}
			// which RPC methods were used, for the report
			for _, ss := range w.sources() {
				seen := map[string]bool{}
				for _, r := range ss.node.Reqs {
					seen[r.Method] = true
				}
				for m := range seen {
					w.stat("rpc_"+m, 1)
				}
			}
		}}
	}
}
