package harness

import (
	"bytes"
	"encoding/json"
	"fmt"
	"net/http/httptest"
	"strings"
	"sync"
	"testing"
	"time"

	"verifsim/core"
	"verifsim/fakepg"
	"verifsim/model"

	"github.com/indexsupply/shovel/shovel/config"
)

// Free-running layer of C20. Under the strict scheduler two Restart calls are
// serialised by the hook in front of the manager's restart lock, which encodes
// the blocking behaviour of the current code: a change that lets a second
// Restart return early is invisible there. Here nothing is hooked and nothing
// parks: the real Manager runs in real time (poll intervals of a few
// milliseconds) against the immediate node and fake server, and several
// dashboard saves (each followed by its Restart) are submitted from separate
// goroutines a few hundred microseconds apart. Oracle, valid for every
// interleaving: once every submission has returned, each expected pair of the
// merged configuration (including every integration whose save was
// acknowledged) records a position within a generous bound, no pair outside
// the merged configuration ever records one, and never two open transactions
// work on one pair's position (database-level monitor).

func RunC20Free(t *testing.T, plan *Plan, st *core.Stream, extra Extra, keepLog bool) (res *Result) {
	installHooks()
	cs := plan.C20
	res = &Result{Prop: plan.Prop, Seed: plan.Seed, Stats: map[string]int{}, PlanDigest: plan.Digest() + fmt.Sprintf(" free saves=%d", len(cs.Saves))}
	w := &World{t: t, plan: plan, st: st, srcs: map[string]*srcState{}, stats: res.Stats, projCache: map[string][]string{}, scriptFired: map[int]bool{}, extra: extra, free: true}
	state := &c20State{byTask: map[any]*c20Runner{}, hostsUsed: map[string]bool{}}
	w.c20Progress = map[string]int64{}
	directMu.Lock() // one free world at a time in this process (global transport hook)
	defer directMu.Unlock()
	w.sched = core.NewSched()
	w.clock = core.NewClock()
	w.srv = fakepg.NewServer()
	w.srv.DB.Now = time.Now
	w.srv.Gate = w.gate
	w.srv.DB.OnCommit = func(ci *fakepg.CommitInfo) {}
	w.freeID = freeWorldSeq.Add(1)
	curFreeWorld.Store(w)
	defer curFreeWorld.Store(nil)
	theWorld = w
	defer func() { theWorld = nil }()
	w.c20 = state
	w.srv.OnExecute = w.c20OnExecute
	w.setup = true
	if err := w.c20Build(); err != nil {
		res.HarnessErr = "setup: " + err.Error()
		return res
	}
	for _, ss := range w.srcs {
		ss.node.Quiet = true
	}
	w.setup = false
	ec := make(chan error, 1)
	go w.mgr.Run(ec)
	var runErr error
	select {
	case runErr = <-ec:
	case <-time.After(20 * time.Second):
		res.HarnessErr = "free C20: Manager.Run reported nothing within 20 s"
		return res
	}
	exp0, _, experr := c20Expected(plan, cs, nil)
	_ = exp0
	if experr != "" {
		if runErr == nil {
			w.violate("missing-startup-error", "%s, but Manager.Run reported no error", experr)
		}
		res.Violations = w.viol
		w.stat("free_runs", 1)
		res.LogHash = fmt.Sprintf("free-%016x", plan.Seed)
		return res
	}
	if runErr != nil {
		w.violate("unexpected-run-error", "Manager.Run reported an error for a valid configuration: %v", runErr)
	}
	// concurrent dashboard saves
	g := NewG(plan.Seed ^ 0xc20f)
	var wg sync.WaitGroup
	var smu sync.Mutex
	var acked []*model.Decl
	for i, d := range cs.Saves {
		var ig config.Integration
		for _, c := range w.c20SaveConf.Integrations {
			if c.Name == d.Name {
				ig = c
			}
		}
		if ig.Name == "" {
			continue
		}
		delay := time.Duration(g.between(0, 600)) * time.Microsecond
		if i == 0 {
			delay = time.Duration(g.between(0, 3000)) * time.Microsecond
		}
		wg.Add(1)
		go func(d *model.Decl, ig config.Integration, delay time.Duration) {
			defer wg.Done()
			time.Sleep(delay)
			b, _ := json.Marshal(ig)
			rec := httptest.NewRecorder()
			req := httptest.NewRequest("POST", "/save-integration", bytes.NewReader(b))
			func() {
				defer func() {
					if r := recover(); r != nil {
						w.violate(panicClass(r), "SaveIntegration panicked: %v", r)
					}
				}()
				w.web.SaveIntegration(rec, req)
			}()
			if rec.Code == 200 {
				smu.Lock()
				acked = append(acked, d)
				smu.Unlock()
			} else {
				w.violate("save-rejected", "dashboard save of %s: status %d %s", d.Name, rec.Code, strings.TrimSpace(rec.Body.String()))
			}
		}(d, ig, delay)
	}
	wg.Wait()
	w.stat("c20_saves", len(acked))
	exp, _, _ := c20Expected(plan, cs, acked)
	// wait until every expected pair has recorded a position (bounded)
	deadline := time.Now().Add(8 * time.Second)
	missing := func() []string {
		snap := w.srv.DB.Snapshot()
		ts := snap.Table(cursorTable)
		have := map[string]bool{}
		if ts != nil {
			for _, r := range ts.Rows {
				if s, i, ok := stamp(ts.Cols, r); ok {
					have[s+"/"+i] = true
					if exp[s+"/"+i] == nil {
						w.violate("unexpected-pair", "a position was recorded for pair %s/%s which the merged configuration does not contain (or which is disabled)", s, i)
					}
				}
			}
		}
		var out []string
		for k, d := range exp {
			src := strings.SplitN(k, "/", 2)[0]
			var ref model.SrcRef
			for _, rf := range d.Sources {
				if rf.Name == src {
					ref = rf
				}
			}
			ss := w.srcs[src]
			if ss == nil || (ref.Start > 0 && ref.Start > ss.node.HeadNum()) {
				continue // nothing to index yet
			}
			if len(w.depsOf(d)) > 0 {
				continue // it may have to wait for ever for what it looks up
			}
			if !have[k] {
				out = append(out, k)
			}
		}
		return out
	}
	var miss []string
	for {
		miss = missing()
		if len(miss) == 0 || time.Now().After(deadline) {
			break
		}
		time.Sleep(3 * time.Millisecond)
	}
	if len(miss) > 0 {
		w.violate("pair-not-indexed", "every dashboard save was acknowledged and every Restart returned, but %v (configured and enabled) recorded no position within 8 s", miss)
	}
	// stop
	w.ending.Store(true)
	func() {
		defer func() { recover() }()
		w.mgr.VerifStop()
	}()
	// nothing of this world may still be running when the next (bubbled) run
	// starts: wait for every runner to return, then fail the transport and give
	// the head pollers a few ticks to die on it
	for i := 0; i < 4000 && w.freeRunners.Load() > 0; i++ {
		time.Sleep(time.Millisecond)
	}
	if n := w.freeRunners.Load(); n > 0 {
		w.harnessFail("free C20: %d runners still alive 4 s after the stop", n)
	}
	w.dead.Store(true)
	time.Sleep(25 * time.Millisecond)
	w.srv.CloseAll()
	w.mu.Lock()
	pools := w.pools
	w.mu.Unlock()
	for _, p := range pools {
		go p.Close()
	}
	w.mu.Lock()
	res.Violations = append([]Violation(nil), w.viol...)
	res.HarnessErr = w.harnessErr
	w.mu.Unlock()
	if w.srv.Unsupported != nil && res.HarnessErr == "" {
		res.HarnessErr = w.srv.Unsupported.Error()
	}
	w.stat("free_runs", 1)
	w.stat("commit_data", 1)
	res.Steps = len(cs.Saves)
	res.LogHash = fmt.Sprintf("free-%016x", plan.Seed)
	res.StateHash = res.LogHash
	res.Decisions = st.Recorded()
	res.NDecisions = len(res.Decisions)
	res.NonTrivial = len(acked) > 0
	// stragglers of the stopped manager may still count: hand out a copy
	w.mu.Lock()
	cp := map[string]int{}
	for k, v := range w.stats {
		cp[k] = v
	}
	w.stats = map[string]int{}
	w.mu.Unlock()
	res.Stats = cp
	return res
}
