package harness

import (
	"bytes"
	"encoding/hex"
	"fmt"
	"math/big"
	"regexp"
	"sort"
	"strconv"
	"strings"

	"verifsim/fakepg"
	"verifsim/model"
	"verifsim/node"
)

const cursorTable = "shovel.task_updates"

type curRow struct {
	num  int64
	hash []byte
	row  *fakepg.Row
}

func valInt(v fakepg.Value) (int64, bool) {
	switch x := v.(type) {
	case *big.Int:
		if x.IsInt64() {
			return x.Int64(), true
		}
	case int64:
		return x, true
	}
	return 0, false
}

func valStr(v fakepg.Value) string {
	s, _ := v.(string)
	return s
}

// stamp returns (src_name, ig_name) of a row if the table has both columns.
func stamp(cols []fakepg.Column, r *fakepg.Row) (string, string, bool) {
	si, ii := -1, -1
	for i, c := range cols {
		switch c.Name {
		case "src_name":
			si = i
		case "ig_name":
			ii = i
		}
	}
	if si < 0 || ii < 0 || si >= len(r.Vals) || ii >= len(r.Vals) {
		return "", "", false
	}
	return valStr(r.Vals[si]), valStr(r.Vals[ii]), true
}

func (w *World) cursorsOf(snap *fakepg.Snapshot, ps *pairState) []curRow {
	ts := snap.Table(cursorTable)
	if ts == nil {
		return nil
	}
	ni, hi := ts.Col("num"), ts.Col("hash")
	var out []curRow
	for _, r := range ts.Rows {
		s, i, ok := stamp(ts.Cols, r)
		if !ok || s != ps.src.plan.Name || i != ps.decl.Name {
			continue
		}
		n, _ := valInt(r.Vals[ni])
		h, _ := r.Vals[hi].([]byte)
		out = append(out, curRow{n, h, r})
	}
	sort.Slice(out, func(a, b int) bool { return out[a].num < out[b].num })
	return out
}

func (w *World) dataRowsOf(snap *fakepg.Snapshot, ps *pairState) (*fakepg.TableSnap, []*fakepg.Row) {
	ts := snap.Table("public." + ps.decl.Table.Name)
	if ts == nil {
		return nil, nil
	}
	var out []*fakepg.Row
	for _, r := range ts.Rows {
		s, i, ok := stamp(ts.Cols, r)
		if ok && s == ps.src.plan.Name && i == ps.decl.Name {
			out = append(out, r)
		}
	}
	return ts, out
}

// branch returns the block versions from..tipNum lying on the branch whose tip
// is (tipNum, tipHash). With no usable hash the canonical chain is used.
func (w *World) branch(ps *pairState, from, tipNum int64, tipHash []byte) ([]*node.Block, string) {
	n := ps.src.node
	if from < 0 {
		from = 0
	}
	if tipNum < from {
		return nil, ""
	}
	var out []*node.Block
	if len(tipHash) == 32 {
		b := n.ByHash[hex.EncodeToString(tipHash)]
		if b == nil {
			return nil, fmt.Sprintf("recorded hash %x of block %d was never served by the source", tipHash[:4], tipNum)
		}
		if int64(b.Num) != tipNum {
			return nil, fmt.Sprintf("recorded hash %x belongs to block %d, not %d", tipHash[:4], b.Num, tipNum)
		}
		for b != nil && int64(b.Num) >= from {
			out = append(out, b)
			if b.Num == 0 {
				break
			}
			b = n.ByHash[hex.EncodeToString(b.Parent)]
		}
		for i, j := 0, len(out)-1; i < j; i, j = i+1, j-1 {
			out[i], out[j] = out[j], out[i]
		}
		return out, ""
	}
	for k := from; k <= tipNum; k++ {
		b := n.Canonical(uint64(k))
		if b == nil {
			return nil, fmt.Sprintf("position %d is beyond the source's head %d", tipNum, n.HeadNum())
		}
		out = append(out, b)
	}
	return out, ""
}

// walkInputs visits every input of the event including nested components.
func walkInputs(ins []model.Input, f func(in *model.Input)) {
	for i := range ins {
		f(&ins[i])
		walkInputs(ins[i].Components, f)
	}
}

func (w *World) hasRefs(d *model.Decl) bool {
	for _, f := range d.Block {
		if f.Filter != nil && f.Filter.Ref != nil && f.Filter.Ref.Integration != "" {
			return true
		}
	}
	found := false
	if d.Event != nil {
		walkInputs(d.Event.Inputs, func(in *model.Input) {
			if in.Filter != nil && in.Filter.Ref != nil && in.Filter.Ref.Integration != "" {
				found = true
			}
		})
	}
	return found
}

func (w *World) lookupIn(snap *fakepg.Snapshot) model.RefLookup {
	return func(table, col string, v []byte) bool {
		ts := snap.Table("public." + table)
		if ts == nil {
			return false
		}
		ci := ts.Col(col)
		if ci < 0 {
			return false
		}
		for _, r := range ts.Rows {
			if ci < len(r.Vals) {
				if b, ok := r.Vals[ci].([]byte); ok && bytes.Equal(b, v) {
					return true
				}
			}
		}
		return false
	}
}

// resolveRefs fills Ref.Table from the referenced declaration (the model's own
// resolution of filter_ref.integration).
func (w *World) resolvedDecl(d *model.Decl) *model.Decl {
	if !w.hasRefs(d) {
		return d
	}
	n := *d
	tbl := func(ig string) string {
		for _, o := range w.plan.Decls {
			if o.Name == ig {
				return o.Table.Name
			}
		}
		return ""
	}
	n.Block = append([]model.Field(nil), d.Block...)
	for i := range n.Block {
		if f := n.Block[i].Filter; f != nil && f.Ref != nil && f.Ref.Integration != "" {
			nf := *f
			nr := *f.Ref
			nr.Table = tbl(nr.Integration)
			nf.Ref = &nr
			n.Block[i].Filter = &nf
		}
	}
	if d.Event != nil {
		ev := *d.Event
		ev.Inputs = cloneInputs(d.Event.Inputs)
		walkInputs(ev.Inputs, func(in *model.Input) {
			if f := in.Filter; f != nil && f.Ref != nil && f.Ref.Integration != "" {
				nf := *f
				nr := *f.Ref
				nr.Table = tbl(nr.Integration)
				nf.Ref = &nr
				in.Filter = &nf
			}
		})
		n.Event = &ev
	}
	return &n
}

func cloneInputs(ins []model.Input) []model.Input {
	out := append([]model.Input(nil), ins...)
	for i := range out {
		if len(out[i].Components) > 0 {
			out[i].Components = cloneInputs(out[i].Components)
		}
	}
	return out
}

// project returns the canonical row strings d derives from the given blocks.
func (w *World) project(ps *pairState, blocks []*node.Block, snap *fakepg.Snapshot, ct map[string]uint32) ([]string, error) {
	d := w.resolvedDecl(ps.decl)
	refs := w.hasRefs(d)
	src := model.SrcInfo{Name: ps.src.plan.Name, ChainID: ps.src.plan.ChainID}
	var out []string
	for _, b := range blocks {
		key := ps.key + "/" + hex.EncodeToString(b.Hash)
		if !refs {
			if c, ok := w.projCache[key]; ok {
				out = append(out, c...)
				continue
			}
		}
		rows, err := model.ProjectBlock(d, src, b, w.lookupIn(snap))
		if err != nil {
			return nil, err
		}
		ks := model.Multiset(rows, ct)
		if !refs {
			w.projCache[key] = ks
		}
		out = append(out, ks...)
	}
	sort.Strings(out)
	return out, nil
}

func declCols(d *model.Decl) map[string]bool {
	n := d.Normalized()
	m := map[string]bool{}
	for _, in := range d.SelectedInputs() {
		m[in.Column] = true
	}
	for _, f := range n.Block {
		m[f.Column] = true
	}
	return m
}

func (w *World) processCommits() {
	w.mu.Lock()
	list := w.commits[w.seenCommit:]
	w.seenCommit = len(w.commits)
	w.mu.Unlock()
	for _, ci := range list {
		w.commitSeq++
		w.checkCommit(ci)
	}
	if len(list) > 0 && len(w.plan.ScriptChain) > 0 {
		w.applyScriptChain()
	}
	if len(list) > 0 && w.healed && w.plan.Checks["settle"] {
		// settling rule, continued: a step that was in flight when the last
		// replacement landed may still record a position of the old branch at
		// or above the new head; the chain keeps growing past it.
		for _, ss := range w.sources() {
			need := int64(-1)
			for _, ps := range w.pairs {
				// only a position that is not on the canonical chain and not
				// below the head needs a child block to become detectable
				if ps.src == ss && ps.curNum >= int64(ss.node.HeadNum()) && len(ps.curHash) == 32 && !ss.node.IsCanonical(ps.curHash) && ps.curNum > need {
					need = ps.curNum
				}
			}
			if d := need + 1 - int64(ss.node.HeadNum()); need >= 0 && d > 0 {
				ss.node.Grow(int(d))
				w.logf("settle %s +%d head=%d", ss.plan.Name, d, ss.node.HeadNum())
				for _, ps := range w.pairs {
					if ps.src == ss {
						ps.healBound += 8*int(d) + 8
						ps.quietRun = 0
					}
				}
			}
		}
	}
	w.mu.Lock()
	oq := w.outcomeQ
	w.outcomeQ = nil
	w.mu.Unlock()
	for _, o := range oq {
		w.recordOutcome(o.p, o.err)
	}
}

func (w *World) checkCommit(ci *fakepg.CommitInfo) {
	if strings.HasPrefix(ci.Owner, "setup") || ci.Owner == "schema" {
		return
	}
	if strings.HasPrefix(ci.Owner, "prune#") {
		w.checkPrune(ci)
		return
	}
	ps := w.pairByOwner(ci.Owner)
	// stamps touched by this commit
	touched := map[string]bool{}
	visit := func(m map[string][]*fakepg.Row, what string) {
		for full, rows := range m {
			ts := ci.Snap.Table(full)
			if ts == nil {
				continue
			}
			for _, r := range rows {
				s, i, ok := stamp(ts.Cols, r)
				if !ok {
					continue
				}
				touched[s+"/"+i] = true
			}
		}
	}
	visit(ci.Inserted, "insert")
	visit(ci.Deleted, "delete")
	if ps == nil {
		// shared pool: attribute by stamp
		if len(touched) == 1 {
			for k := range touched {
				for _, p := range w.pairs {
					if p.key == k {
						ps = p
					}
				}
			}
		}
		if ps == nil {
			if len(touched) > 1 {
				w.violate("foreign-write", "one transaction (owner %s) changed rows of several pairs: %v", ci.Owner, keys(touched))
			}
			return
		}
	}
	for k := range touched {
		if k != ps.key {
			w.violate("foreign-write", "transaction of pair %s changed rows stamped %s", ps.key, k)
		}
	}
	ps.callCommits = append(ps.callCommits, ci)
	// cursor changes
	var insCur []curRow
	if ts := ci.Snap.Table(cursorTable); ts != nil {
		ni, hi := ts.Col("num"), ts.Col("hash")
		for _, r := range ci.Inserted[cursorTable] {
			n, _ := valInt(r.Vals[ni])
			h, _ := r.Vals[hi].([]byte)
			insCur = append(insCur, curRow{n, h, r})
		}
	}
	nDelCur := len(ci.Deleted[cursorTable])
	dataFull := "public." + ps.decl.Table.Name
	nDelData := len(ci.Deleted[dataFull])
	if nDelCur > 0 || nDelData > 0 {
		w.stat("commit_delete", 1)
		if nDelCur >= 2 {
			w.stat("probe_unwind_ge2", 1)
		}
		if w.plan.Faults.MaxReorgs == 0 && !w.plan.Checks["allow_delete"] {
			w.violate("unexpected-delete", "pair %s deleted %d position rows and %d table rows although the source never replaced a block", ps.key, nDelCur, nDelData)
		}
	}
	curs := w.cursorsOf(ci.Snap, ps)
	prev := int64(-1)
	var prevHash []byte
	if len(insCur) > 0 {
		w.stat("commit_data", 1)
		if len(insCur) > 1 {
			w.violate("multi-cursor", "pair %s recorded %d positions in one transaction", ps.key, len(insCur))
		}
		ic := insCur[0]
		for _, c := range curs {
			if c.row != ic.row && c.num > prev && c.num <= ic.num {
				prev, prevHash = c.num, c.hash
			}
		}
		_ = prevHash
		// newest must be the inserted one
		if len(curs) > 0 && curs[len(curs)-1].row != ic.row {
			w.violate("cursor-not-advancing", "pair %s recorded position %d although %d is already recorded", ps.key, ic.num, curs[len(curs)-1].num)
		}
		from := prev + 1
		if prev < 0 {
			if ps.origin < 0 {
				ps.origin = w.inferOrigin(ps, ci, ic)
			}
			from = ps.origin
		}
		if prev >= 0 && ic.num <= prev {
			w.violate("cursor-not-advancing", "pair %s position went %d -> %d", ps.key, prev, ic.num)
		}
		if ic.num-from+1 > int64(max(ps.src.batch, 1)) {
			w.violate("step-too-large", "pair %s advanced by %d blocks with batch size %d", ps.key, ic.num-from+1, ps.src.batch)
		}
		if ps.src.node.Reorgs == 0 {
			w.checkInserted(ps, ci, from, ic)
		}
		ps.everCommitted = true
		if ic.num > ps.maxEverNum {
			ps.maxEverNum = ic.num
		}
	}
	if len(insCur) > 0 || nDelCur > 0 {
		// a recorded position changed: every pair of that source may have new
		// work now (an integration waits for the positions of the ones it
		// references), so nobody counts as idle until it has looked again
		for _, o := range w.pairs {
			if o.src == ps.src {
				o.sinceChange = 0
			}
		}
	}
	prevNum := ps.curNum
	if len(curs) > 0 {
		ps.curNum, ps.curHash = curs[len(curs)-1].num, curs[len(curs)-1].hash
	} else {
		ps.curNum, ps.curHash = -1, nil
	}
	if nDelCur > 0 {
		// unwound: blocks above the remaining position will be indexed again
		for b := range ps.unreliable {
			if b > ps.curNum {
				delete(ps.unreliable, b)
			}
		}
	}
	if ps.curNum != prevNum {
		ps.curHist = append(ps.curHist, curChange{seq: w.commitSeq, num: ps.curNum})
	}
	if len(insCur) > 0 || nDelCur > 0 || nDelData > 0 || len(ci.Inserted[dataFull]) > 0 {
		w.checkState(ps, ci.Snap, "commit")
	}
	if w.extra.OnCommit != nil {
		w.extra.OnCommit(w, ps, ci)
	}
}

func keys(m map[string]bool) []string {
	var out []string
	for k := range m {
		out = append(out, k)
	}
	sort.Strings(out)
	return out
}

// inferOrigin handles "no start configured": the first written block must be a
// head number the source announced; pick the announced head for which the
// inserted rows match.
func (w *World) inferOrigin(ps *pairState, ci *fakepg.CommitInfo, ic curRow) int64 {
	n := ps.src.node
	var cands []int64
	for k := range n.Announced {
		var num int64
		fmt.Sscanf(k, "%d/", &num)
		// "the source's current head": a task without a position asks the
		// source for its head in the very step that writes (uncached), so the
		// first written block is a head announced during that call
		during := false
		for _, at := range n.AnnouncedAt[k] {
			if at >= ps.callStart {
				during = true
			}
		}
		if !during {
			continue
		}
		if num <= ic.num && ic.num-num+1 <= int64(max(ps.src.batch, 1)) {
			cands = append(cands, num)
		}
	}
	sort.Slice(cands, func(a, b int) bool { return cands[a] > cands[b] })
	seen := map[int64]bool{}
	ts, _ := w.dataRowsOf(ci.Snap, ps)
	if ts == nil {
		return ic.num
	}
	ct := model.ColTypes(ts.Cols)
	got := model.StoredMultiset(ts.Cols, w.ownRows(ts, ci.Inserted["public."+ps.decl.Table.Name], ps), declCols(ps.decl))
	for _, o := range cands {
		if seen[o] {
			continue
		}
		seen[o] = true
		blocks, msg := w.branch(ps, o, ic.num, ic.hash)
		if msg != "" {
			continue
		}
		want, err := w.project(ps, blocks, ci.Snap, ct)
		if err != nil {
			continue
		}
		if len(model.DiffMultisets(want, got, 1)) == 0 {
			return o
		}
	}
	if len(cands) == 0 {
		w.violate("start-not-at-head", "pair %s has no configured start; its first recorded position %d is not within one batch of any head the source announced", ps.key, ic.num)
		return ic.num
	}
	return cands[0]
}

func (w *World) ownRows(ts *fakepg.TableSnap, rows []*fakepg.Row, ps *pairState) []*fakepg.Row {
	var out []*fakepg.Row
	for _, r := range rows {
		s, i, ok := stamp(ts.Cols, r)
		if ok && s == ps.src.plan.Name && i == ps.decl.Name {
			out = append(out, r)
		}
	}
	return out
}

// checkInserted: the transaction that records position ic.num adds exactly the
// rows of blocks from..ic.num and the recorded hash is the hash of ic.num.
func (w *World) checkInserted(ps *pairState, ci *fakepg.CommitInfo, from int64, ic curRow) {
	blocks, msg := w.branch(ps, from, ic.num, ic.hash)
	if msg != "" {
		w.violate("cursor-hash", "pair %s: %s", ps.key, msg)
		return
	}
	ts, _ := w.dataRowsOf(ci.Snap, ps)
	if ts == nil {
		w.harnessFail("table %s missing", ps.decl.Table.Name)
		return
	}
	ct := model.ColTypes(ts.Cols)
	want, err := w.project(ps, blocks, ci.Snap, ct)
	if err != nil {
		w.harnessFail("model cannot project %s: %v", ps.key, err)
		return
	}
	got := model.StoredMultiset(ts.Cols, w.ownRows(ts, ci.Inserted["public."+ps.decl.Table.Name], ps), declCols(ps.decl))
	if diff := model.DiffMultisets(want, got, 4); len(diff) > 0 {
		w.violate("step-rows-mismatch", "pair %s: transaction recording position %d (blocks %d..%d) wrote rows that differ from the declared projection (%d expected, %d written): %s",
			ps.key, ic.num, from, ic.num, len(want), len(got), strings.Join(diff, " ;; "))
	}
}

// checkState: rows of the pair == projection(origin..position) on the branch
// the newest recorded position lies on.
func (w *World) checkState(ps *pairState, snap *fakepg.Snapshot, when string) {
	ts, rows := w.dataRowsOf(snap, ps)
	if ts == nil {
		return
	}
	curs := w.cursorsOf(snap, ps)
	ct := model.ColTypes(ts.Cols)
	got := model.StoredMultiset(ts.Cols, rows, declCols(ps.decl))
	if len(curs) == 0 {
		if len(got) > 0 {
			w.violate("rows-without-position", "pair %s (%s): %d rows present but no position recorded; e.g. %s", ps.key, when, len(got), got[0])
		}
		return
	}
	tip := curs[len(curs)-1]
	if ps.ref.Start > 0 && curs[0].num < int64(ps.ref.Start) {
		w.violate("position-before-start", "pair %s recorded position %d before the configured start %d", ps.key, curs[0].num, ps.ref.Start)
	}
	if ps.ref.Stop > 0 && tip.num > int64(ps.ref.Stop) {
		w.violate("beyond-stop", "pair %s recorded position %d beyond stop %d", ps.key, tip.num, ps.ref.Stop)
	}
	// no row lies beyond the newest position (holds under any reorg race:
	// rows and position are written by one transaction, and an unwind removes
	// everything above the position that remains)
	if bi := ts.Col("block_num"); bi >= 0 {
		for _, r := range rows {
			if n, ok := valInt(r.Vals[bi]); ok && n > tip.num {
				w.violate("row-beyond-position", "pair %s (%s): a row of block %d exists but the newest recorded position is %d", ps.key, when, n, tip.num)
				break
			}
			if n, ok := valInt(r.Vals[bi]); ok && ps.ref.Start > 0 && n < int64(ps.ref.Start) {
				w.violate("row-before-start", "pair %s (%s): a row of block %d exists but the configured start is %d", ps.key, when, n, ps.ref.Start)
				break
			}
		}
	}
	if ps.origin < 0 {
		return
	}
	// Exact equality with the projection is decidable at every commit while
	// the source has never replaced a block. Once it has, a replacement can
	// race with the RPC calls of a step (or with cached segments) in ways no
	// client can detect until the next block arrives; then equality is
	// required at quiescence only (C03), never in between.
	if ps.src.node.Reorgs > 0 && !(when == "final" && w.quiescent()) {
		return
	}
	blocks, msg := w.branch(ps, ps.origin, tip.num, tip.hash)
	if msg != "" {
		w.violate("cursor-hash", "pair %s (%s): %s", ps.key, when, msg)
		return
	}
	want, err := w.project(ps, blocks, snap, ct)
	if err != nil {
		w.harnessFail("model cannot project %s: %v", ps.key, err)
		return
	}
	if len(ps.unreliable) > 0 {
		want, got = dropBlocks(want, ps.unreliable), dropBlocks(got, ps.unreliable)
	}
	if diff := model.DiffMultisets(want, got, 4); len(diff) > 0 && !ps.lookupsUnreliable {
		w.violate("state-mismatch", "pair %s (%s): table differs from projection of blocks %d..%d (%d expected, %d stored): %s",
			ps.key, when, ps.origin, tip.num, len(want), len(got), strings.Join(diff, " ;; "))
	}
	// every retained position row must lie on that branch
	byNum := map[int64]*node.Block{}
	for _, b := range blocks {
		byNum[int64(b.Num)] = b
	}
	for _, c := range curs {
		if b, ok := byNum[c.num]; ok && len(c.hash) == 32 && !bytes.Equal(b.Hash, c.hash) {
			w.violate("cursor-history-fork", "pair %s (%s): retained position %d has hash %x but the branch of the newest position has %x", ps.key, when, c.num, c.hash[:4], b.Hash[:4])
		}
	}
}

func (w *World) target(ps *pairState) int64 {
	t := int64(ps.src.node.HeadNum())
	if ps.ref.Stop > 0 && int64(ps.ref.Stop) < t {
		t = int64(ps.ref.Stop)
	}
	return t
}

func (w *World) bound(ps *pairState) int {
	remaining := w.target(ps) - ps.curNum
	if ps.curNum < 0 && ps.origin >= 0 {
		remaining = w.target(ps) - ps.origin + 1
	}
	if remaining < 0 {
		remaining = 0
	}
	unwind := len(w.cursorsOf(w.srv.DB.Snapshot(), ps))
	if unwind > 1100 {
		unwind = 1100
	}
	return 4*(int(remaining)+unwind) + 8*len(w.plan.Decls) + 50
}

func (w *World) onHeal() {
	if w.plan.Checks["settle"] {
		// Settling rule (DESIGN section 7, C03): after the last replacement the chain keeps
		// growing until the head is above the highest position any pair ever
		// recorded: an equal-height replacement only shows through a child
		// block, and a position above a shortened head can only report "ahead".
		for _, ss := range w.sources() {
			need := int64(-1)
			for _, ps := range w.pairs {
				if ps.src == ss && ps.maxEverNum > need {
					need = ps.maxEverNum
				}
			}
			if d := need + 1 - int64(ss.node.HeadNum()); d > 0 {
				ss.node.Grow(int(d))
				w.logf("settle %s +%d head=%d", ss.plan.Name, d, ss.node.HeadNum())
			} else if ss.node.Reorgs > 0 {
				ss.node.Grow(1)
				w.logf("settle %s +1 head=%d", ss.plan.Name, ss.node.HeadNum())
			}
		}
	}
	for _, ps := range w.pairs {
		ps.callsHealed = 0
		ps.quietRun = 0
		ps.outcomes = nil
		ps.healBound = w.bound(ps)
	}
}

func (w *World) recordOutcome(ps *pairState, err error) {
	name := outcomeName(err)
	w.mu.Lock()
	w.converges++
	w.mu.Unlock()
	w.stat("outcome_"+name, 1)
	if err == nil {
		w.okOutcomes++
	}
	nData := 0
	for _, ci := range ps.callCommits {
		if len(ci.Inserted[cursorTable]) > 0 {
			nData++
		}
	}
	switch {
	case err == nil && nData != 1:
		w.violate("ok-commit-count", "pair %s: Converge returned success but %d position-recording transactions committed during the call", ps.key, nData)
	case err != nil && nData > 0 && !ps.callLostAck:
		w.violate("error-but-committed", "pair %s: Converge returned %q although a position-recording transaction committed during the call", ps.key, err.Error())
	}
	// start/stop (C06): once the stop block is recorded, every call reports
	// completion (or a transient failure) and writes nothing.
	if ps.ref.Stop > 0 && ps.curAtCallStart >= int64(ps.ref.Stop) {
		if name != "done" && name != "error" {
			w.violate("not-done-after-stop", "pair %s: position %d has reached stop %d but Converge returned %q", ps.key, ps.curAtCallStart, ps.ref.Stop, name)
		}
		for _, ci := range ps.callCommits {
			if !ci.Empty() {
				w.violate("write-after-stop", "pair %s: a transaction changed rows or positions although stop %d was already recorded", ps.key, ps.ref.Stop)
				break
			}
		}
	}
	emptyRange := ps.curAtCallStart < 0 && ps.ref.Stop > 0 &&
		((ps.ref.Start > 0 && ps.ref.Start-1 >= ps.ref.Stop) || (ps.ref.Start == 0 && ps.src.node.HeadNum() >= ps.ref.Stop+1))
	if name == "done" && !emptyRange && (ps.ref.Stop == 0 || ps.curAtCallStart < int64(ps.ref.Stop)) {
		w.violate("done-before-stop", "pair %s: Converge reported completion at position %d with stop %d", ps.key, ps.curAtCallStart, ps.ref.Stop)
	}
	ps.callCommits = nil
	ps.callLostAck = false
	es := ""
	if err != nil {
		es = err.Error()
		if name == "error" {
			ps.lastErr = es
			w.stat("probe_step_error", 1)
		}
	}
	w.sched.Log.Add("%d outcome %s %s", w.step, ps.key, name)
	ps.calls++
	ps.outcomes = append(ps.outcomes, name)
	if len(ps.outcomes) > 4 {
		ps.outcomes = ps.outcomes[len(ps.outcomes)-4:]
	}
	if name == "done" {
		ps.done = true
	}
	if name == "nothing-new" || name == "done" {
		ps.quietRun++
		ps.sinceChange++
	} else {
		ps.quietRun = 0
	}
	if w.healed {
		ps.callsHealed++
		waitingForStart := ps.curNum < 0 && ps.ref.Start > 0 && int64(ps.ref.Start)-1 > int64(ps.src.node.HeadNum())
		if ps.callsHealed > ps.healBound && !w.pairQuiet(ps) && !ps.stuckReported && !waitingForStart {
			ps.stuckReported = true
			w.violate("stuck", "pair %s made no quiescence within %d Converge calls after faults stopped (position %d, head %d, last outcome %s, last error %q)",
				ps.key, ps.callsHealed, ps.curNum, ps.src.node.HeadNum(), name, ps.lastErr)
		}
	}
	if w.extra.OnOutcome != nil {
		w.extra.OnOutcome(w, ps, err)
	}
}

// pairQuiet: the pair returned "nothing new"/"done" often enough in a row
// that the source must have been asked for its head again: a cached head
// serves at most maxreads reads (maxreads = number of integrations).
func (w *World) pairQuiet(ps *pairState) bool {
	if ps.idle {
		return true
	}
	// configured start beyond the head: the task can only wait
	if ps.curNum < 0 && ps.ref.Start > 0 && int64(ps.ref.Start)-1 > int64(ps.src.node.HeadNum()) && ps.calls >= 3 && !ps.inCall {
		return true
	}
	need := len(w.plan.Decls) + 2
	if ps.inCall || ps.quietRun < need {
		return false
	}
	return true
}

func (w *World) quiescent() bool {
	if !w.healed {
		return false
	}
	need := len(w.plan.Decls) + 2
	for _, ps := range w.pairs {
		if !w.pairQuiet(ps) {
			return false
		}
		// the run is only over when every pair has looked again (often enough
		// to get past a cached head) since the last change of any position of
		// its source: an integration that waits for others has new work then
		waiting := ps.curNum < 0 && ps.ref.Start > 0 && int64(ps.ref.Start)-1 > int64(ps.src.node.HeadNum())
		if !ps.idle && !waiting && ps.sinceChange < need {
			return false
		}
	}
	return true
}

func (w *World) finalChecks() {
	w.processCommits()
	snap := w.srv.DB.Snapshot()
	q := w.quiescent()
	if q {
		w.stat("quiesced", 1)
	} else if w.harnessErr == "" && len(w.viol) == 0 {
		w.stat("budget_exhausted", 1)
	}
	for _, ps := range w.pairs {
		w.checkState(ps, snap, "final")
		if !q {
			continue
		}
		if w.plan.Checks["skip_target"] {
			continue
		}
		want := w.target(ps)
		if dep := w.depLimit(ps, snap); dep >= 0 && dep < want {
			want = dep
		}
		if ps.idle {
			continue
		}
		startsAfter := ps.origin >= 0 && ps.origin > want
		if ps.curNum != want && !startsAfter && !(ps.origin < 0 && ps.curNum < 0) {
			w.violate("not-caught-up", "pair %s is quiescent at position %d but the source head (or stop / dependency limit) is %d", ps.key, ps.curNum, want)
		}
		if len(ps.curHash) == 32 && !ps.src.node.IsCanonical(ps.curHash) && ps.curNum >= 0 {
			w.violate("orphan-position", "pair %s is quiescent on position %d with hash %x which is not on the canonical chain", ps.key, ps.curNum, ps.curHash[:4])
		}
	}
	if w.extra.AtEnd != nil {
		w.extra.AtEnd(w)
	}
}

// depLimit returns the smallest newest position among the integrations ps
// references (same source), -1 if ps has no references, 0 if some referenced
// pair has none recorded.
func (w *World) depLimit(ps *pairState, snap *fakepg.Snapshot) int64 {
	deps := w.depsOf(ps.decl)
	if len(deps) == 0 {
		return -1
	}
	lim := int64(-1)
	for _, dn := range deps {
		found := false
		for _, o := range w.pairs {
			if o.decl.Name == dn && o.src == ps.src {
				found = true
				cs := w.cursorsOf(snap, o)
				v := int64(0)
				if len(cs) > 0 {
					v = cs[len(cs)-1].num
				}
				if lim < 0 || v < lim {
					lim = v
				}
			}
		}
		if !found {
			return 0
		}
	}
	return lim
}

func (w *World) depsOf(d *model.Decl) []string {
	seen := map[string]bool{}
	var out []string
	add := func(f *model.Filter) {
		if f != nil && f.Ref != nil && f.Ref.Integration != "" && !seen[f.Ref.Integration] {
			seen[f.Ref.Integration] = true
			out = append(out, f.Ref.Integration)
		}
	}
	for _, f := range d.Block {
		add(f.Filter)
	}
	if d.Event != nil {
		walkInputs(d.Event.Inputs, func(in *model.Input) { add(in.Filter) })
	}
	return out
}

var blockNumRE = regexp.MustCompile(`(^| )block_num=([0-9]+)( |$)`)

// dropBlocks removes the rows of the given blocks from a row multiset.
func dropBlocks(rows []string, blocks map[int64]bool) []string {
	var out []string
	for _, r := range rows {
		if m := blockNumRE.FindStringSubmatch(r); m != nil {
			n, _ := strconv.ParseInt(m[2], 10, 64)
			if blocks[n] {
				continue
			}
		}
		out = append(out, r)
	}
	return out
}
