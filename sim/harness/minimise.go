package harness

import (
	"encoding/json"
	"fmt"
	"os"
	"os/exec"
	"strings"
	"testing"
	"time"

	"verifsim/core"
)

// sameClass reports whether res shows the violation class we are minimising.
func sameClass(res *Result, class string) bool {
	for _, v := range res.Violations {
		if v.Class == class {
			return true
		}
	}
	return false
}

type minimiser struct {
	t        *testing.T
	class    string
	crash    bool
	deadline time.Time
	runs     int
	lastViol *Violation
	lastAll  []Violation
	lastTail []string
	tmp      string
}

// fails runs one candidate and reports whether the same violation recurs.
func (m *minimiser) fails(plan *Plan, dec []uint32) bool {
	m.runs++
	if m.crash {
		rep := Replay{Prop: plan.Prop, Plan: plan, Decisions: dec}
		b, _ := json.Marshal(rep)
		f := fmt.Sprintf("%s/cand.json", m.tmp)
		os.WriteFile(f, b, 0o644)
		cmd := exec.Command(os.Args[0], "-test.run", "^TestWorker$", "-test.timeout", "120s")
		cmd.Env = append(os.Environ(), "VERIF_REPLAY="+f, "VERIF_MINIMISE=", "VERIF_OUT=")
		out, err := cmd.CombinedOutput()
		if err == nil {
			return false
		}
		s := string(out)
		if strings.Contains(s, "panic:") || strings.Contains(s, "fatal error:") {
			sig := CrashSignature(s)
			if m.class == "" || sig == m.class {
				return true
			}
		}
		return false
	}
	res := RunPlan(m.t, plan, core.NewReplay(dec), true)
	if res.HarnessErr != "" {
		return false
	}
	if sameClass(res, m.class) {
		for i := range res.Violations {
			if res.Violations[i].Class == m.class {
				v := res.Violations[i]
				m.lastViol = &v
				break
			}
		}
		m.lastAll = res.Violations
		m.lastTail = res.LogTail
		return true
	}
	return false
}

func (m *minimiser) timeUp() bool { return time.Now().After(m.deadline) }

// CrashSignature extracts "process-died: <panic message> @ <first repo frame>".
func CrashSignature(out string) string {
	lines := strings.Split(out, "\n")
	msg := ""
	frame := ""
	for i, l := range lines {
		if msg == "" && (strings.HasPrefix(l, "panic:") || strings.HasPrefix(l, "fatal error:")) {
			msg = strings.TrimSpace(l)
			if j := strings.Index(msg, " [recovered"); j > 0 {
				msg = msg[:j]
			}
			_ = i
		}
		if msg != "" && frame == "" && strings.HasPrefix(l, "github.com/indexsupply/shovel/") {
			frame = strings.TrimSpace(l)
			if j := strings.LastIndex(frame, "("); j > 0 {
				frame = frame[:j]
			}
		}
	}
	if msg == "" {
		return ""
	}
	return "process-died: " + msg + " @ " + strings.TrimPrefix(frame, "github.com/indexsupply/shovel/")
}

func clonePlan(p *Plan) *Plan {
	b, _ := json.Marshal(p)
	var q Plan
	json.Unmarshal(b, &q)
	if q.Checks == nil {
		q.Checks = map[string]bool{}
	}
	return &q
}

// Minimise shrinks a violating replay while the same violation class persists:
// truncate the decision vector, zero chunks, lower single decisions, then
// shrink the plan. Every candidate is a full deterministic re-run.
func Minimise(t *testing.T, r *Replay, budget time.Duration) *Replay {
	m := &minimiser{t: t, deadline: time.Now().Add(budget)}
	if r.Crash != "" {
		m.crash = true
		m.class = r.Crash
		m.tmp, _ = os.MkdirTemp("", "verifmin")
		defer os.RemoveAll(m.tmp)
	} else if r.Violation != nil {
		m.class = r.Violation.Class
	} else {
		return r
	}
	plan := clonePlan(r.Plan)
	dec := append([]uint32(nil), r.Decisions...)
	if !m.fails(plan, dec) {
		out := *r
		out.Minimised = false
		out.Note = "did not reproduce in the minimiser"
		return &out
	}
	// 1. truncate (binary search on length)
	lo, hi := 0, len(dec)
	for lo < hi && !m.timeUp() {
		mid := (lo + hi) / 2
		if m.fails(plan, dec[:mid]) {
			hi = mid
		} else {
			lo = mid + 1
		}
	}
	if hi < len(dec) && m.fails(plan, dec[:hi]) {
		dec = dec[:hi]
	}
	// 2. zero chunks
	for size := len(dec) / 2; size >= 1 && !m.timeUp(); size /= 2 {
		for at := 0; at < len(dec) && !m.timeUp(); at += size {
			end := min(at+size, len(dec))
			allZero := true
			for _, v := range dec[at:end] {
				if v != 0 {
					allZero = false
				}
			}
			if allZero {
				continue
			}
			cand := append([]uint32(nil), dec...)
			for i := at; i < end; i++ {
				cand[i] = 0
			}
			if m.fails(plan, cand) {
				dec = cand
			}
		}
		if size == 1 {
			break
		}
	}
	// 3. lower single decisions
	for i := 0; i < len(dec) && !m.timeUp(); i++ {
		if dec[i] <= 1 {
			continue
		}
		for _, nv := range []uint32{1, dec[i] / 2} {
			if nv >= dec[i] {
				continue
			}
			cand := append([]uint32(nil), dec...)
			cand[i] = nv
			if m.fails(plan, cand) {
				dec = cand
				break
			}
		}
	}
	// 4. plan shrinks
	try := func(mut func(p *Plan) bool) {
		if m.timeUp() {
			return
		}
		c := clonePlan(plan)
		if !mut(c) {
			return
		}
		if m.fails(c, dec) {
			plan = c
		}
	}
	for i := len(plan.Decls) - 1; i >= 0 && len(plan.Decls) > 1; i-- {
		i := i
		try(func(p *Plan) bool {
			if i >= len(p.Decls) || len(p.Decls) <= 1 {
				return false
			}
			p.Decls = append(p.Decls[:i], p.Decls[i+1:]...)
			return true
		})
	}
	for si := range plan.Sources {
		si := si
		try(func(p *Plan) bool {
			if p.Sources[si].Conc == 1 {
				return false
			}
			p.Sources[si].Conc = 1
			return true
		})
		try(func(p *Plan) bool {
			if p.Sources[si].Batch == 1 {
				return false
			}
			p.Sources[si].Batch = 1
			return true
		})
		try(func(p *Plan) bool {
			if p.Sources[si].NURLs <= 1 {
				return false
			}
			p.Sources[si].NURLs = 1
			return true
		})
	}
	for di := range plan.Decls {
		di := di
		// drop block fields one at a time
		for fi := len(plan.Decls[di].Block) - 1; fi >= 0; fi-- {
			fi := fi
			try(func(p *Plan) bool {
				d := p.Decls[di]
				if fi >= len(d.Block) {
					return false
				}
				d.Block = append(d.Block[:fi], d.Block[fi+1:]...)
				return true
			})
		}
	}
	try(func(p *Plan) bool {
		if p.MaxSteps <= 200 {
			return false
		}
		p.MaxSteps = max(200, len(dec))
		return true
	})
	// final truncation pass after plan changes
	lo, hi = 0, len(dec)
	for lo < hi && !m.timeUp() {
		mid := (lo + hi) / 2
		if m.fails(plan, dec[:mid]) {
			hi = mid
		} else {
			lo = mid + 1
		}
	}
	if hi < len(dec) && m.fails(plan, dec[:hi]) {
		dec = dec[:hi]
	}
	// strip trailing zeros (past-the-end reads as 0 anyway)
	for len(dec) > 0 && dec[len(dec)-1] == 0 {
		dec = dec[:len(dec)-1]
	}
	// re-establish the last failing result for the report
	ok := m.fails(plan, dec)
	out := *r
	out.Plan = plan
	out.Decisions = dec
	out.Minimised = ok
	out.MinRuns = m.runs
	if m.lastViol != nil {
		out.Violation = m.lastViol
		out.AllViol = m.lastAll
		out.LogTail = m.lastTail
	}
	return &out
}
