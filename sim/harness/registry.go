package harness

import "testing"

// Generators per property: a plan from a run seed.
var Generators = map[string]func(seed uint64) *Plan{
	"C01": GenC01,
	"C02": GenC02x,
	"C03": GenC03,
	"C04": GenC04,
	"C06": GenC06,
}

// Indexed generators (enumerations): plan number i, ok=false past the end.
var Indexed = map[string]func(t *testing.T, i int, seedBase uint64) (*Plan, bool){}

// Extras per property (additional oracles).
var Extras = map[string]func(p *Plan) Extra{}
