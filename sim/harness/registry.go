package harness

import (
	"testing"

	"verifsim/core"
	"verifsim/fakepg"
)

// Generators per property: a plan from a run seed.
var Generators = map[string]func(seed uint64) *Plan{
	"C01": GenC01,
	"C02": GenC02x,
	"C03": GenC03,
	"C04": GenC04,
	"C06": GenC06,
}

// Indexed generators (enumerations): plan number i, ok=false past the end.
var Indexed = map[string]func(t *testing.T, i int, seedBase uint64) (*Plan, bool){}

// Extras per property (additional oracles).
var Extras = map[string]func(p *Plan) Extra{}

// Runners per property (default: the pipeline Run).
var Runners = map[string]func(t *testing.T, plan *Plan, st *core.Stream, extra Extra, keepLog bool) *Result{}

// EnumSize per indexed property: number of enumerated cases.
var EnumSize = map[string]func(t *testing.T) int{}

func RunPlan(t *testing.T, plan *Plan, st *core.Stream, keepLog bool) *Result {
	if r, ok := Runners[plan.Prop]; ok {
		return r(t, plan, st, extraFor(plan), keepLog)
	}
	return Run(t, plan, st, extraFor(plan), keepLog)
}

func extraFor(p *Plan) Extra {
	e := Extra{}
	if f, ok := Extras[p.Prop]; ok {
		e = f(p)
	}
	if p.Checks["deps"] && p.Prop != "C05" {
		// plans of other properties that contain a dependency graph also get
		// the C05 monitors
		d := Extras["C05"](p)
		e = chainExtra(e, d)
	}
	return e
}

func chainExtra(a, b Extra) Extra {
	out := a
	if b.OnCommit != nil {
		f := a.OnCommit
		out.OnCommit = func(w *World, p *pairState, ci *fakepg.CommitInfo) {
			if f != nil {
				f(w, p, ci)
			}
			b.OnCommit(w, p, ci)
		}
	}
	if b.OnOutcome != nil {
		f := a.OnOutcome
		out.OnOutcome = func(w *World, p *pairState, err error) {
			if f != nil {
				f(w, p, err)
			}
			b.OnOutcome(w, p, err)
		}
	}
	if b.AtEnd != nil {
		f := a.AtEnd
		out.AtEnd = func(w *World) {
			if f != nil {
				f(w)
			}
			b.AtEnd(w)
		}
	}
	if b.OnSQL != nil && a.OnSQL == nil {
		out.OnSQL = b.OnSQL
	}
	return out
}
