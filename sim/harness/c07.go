package harness

import (
	"bytes"
	"context"
	"encoding/hex"
	"encoding/json"
	"fmt"
	"io"
	"net/http"
	"regexp"
	"sort"
	"strconv"
	"strings"
	"sync"
	"testing"

	"verifsim/core"
	"verifsim/model"
	"verifsim/node"

	"github.com/indexsupply/shovel/eth"
	"github.com/indexsupply/shovel/jrpc2"
	"github.com/indexsupply/shovel/shovel/glf"
)

// C07 — source responses are validated. Client-level harness: the real
// jrpc2.Client.Get (nocache URL) against the simulated node over the in-memory
// transport; exactly one (or a seeded combination of) corruption is applied
// to one HTTP exchange of the call. Oracle, from the property's wording:
// a response set that is not well-formed must make Get fail; if Get succeeds
// its blocks must be exactly the requested numbers, linked, with every log,
// receipt and trace attached unchanged to the block and transaction it names.

type C07Corr struct {
	Exch int    `json:"exch"` // index of the HTTP exchange within the Get call
	Kind string `json:"kind"`
	Elem int    `json:"elem"`
	Arg  int    `json:"arg"`
}

type C07Case struct {
	H, B, R, L, T bool      `json:"-"`
	Flags         string    `json:"flags"` // subset of "hbrlt"
	Needs         []string  `json:"needs,omitempty"`
	Addrs         []string  `json:"addrs,omitempty"`
	Start         uint64    `json:"start"`
	Limit         uint64    `json:"limit"`
	Corr          []C07Corr `json:"corr,omitempty"`
	// Retry: the client caches (default URL). The corruption hits the first
	// Get; a second Get for the same range then sees clean responses and must
	// not return anything but the node's data (a response that failed
	// validation must not be served from the segment cache).
	Retry bool `json:"retry,omitempty"`
	// Warm: the client has already served a clean request (an adjacent range,
	// same plan) before the corrupted one: whatever it keeps between requests
	// (buffers, caches, counters) is not in its initial state.
	Warm bool `json:"warm,omitempty"`
}

// directRT, when set, serves HTTP synchronously (client-level harnesses).
var directRT func(url string, body []byte) (status int, resp []byte, err error)
var directMu sync.Mutex

type c07Exchange struct {
	reqs   []node.Request
	batch  bool
	status int
	body   []byte
	kind   string // blocks | headers | receipts | logs | trace
	block  uint64 // trace: requested block
}

func c07Node() *node.Node {
	p := &Plan{Seed: 0xC07}
	p.Content = ContentPlan{TxMax: 3, MinTx: 1, LogMax: 3, TraceMax: 2, MinTraces: 1, EmptyPct: 0,
		Addrs:  []string{"0x00000000000000000000000000000000000000a1", "0x00000000000000000000000000000000000000a2", "0x00000000000000000000000000000000000000a3"},
		Events: []EventSpec{{Event: transferEvent()}}}
	n := node.New("c07", 7, p.Seed, MakeFiller(p, "c07"))
	n.Grow(40)
	return n
}

func exchKind(reqs []node.Request) string {
	if len(reqs) == 0 {
		return "?"
	}
	switch reqs[0].Method {
	case "eth_getBlockReceipts":
		return "receipts"
	case "trace_block":
		return "trace"
	case "eth_getBlockByNumber":
		if len(reqs) == 2 && reqs[1].Method == "eth_getLogs" {
			return "logs"
		}
		full := false
		if len(reqs[0].Params) > 1 {
			json.Unmarshal(reqs[0].Params[1], &full)
		}
		if full {
			return "blocks"
		}
		return "headers"
	}
	return "?"
}

func hexq(n uint64) string { return "0x" + strconv.FormatUint(n, 16) }

// mutate result JSON object/array helpers
func asObj(raw json.RawMessage) map[string]any {
	var m map[string]any
	if json.Unmarshal(raw, &m) != nil {
		return nil
	}
	return m
}
func asArr(raw json.RawMessage) []any {
	var a []any
	if json.Unmarshal(raw, &a) != nil {
		return nil
	}
	return a
}
func enc(v any) json.RawMessage {
	b, _ := json.Marshal(v)
	return b
}

// applyCorruption turns the true replies into the corrupted status/body.
// ok=false means the corruption does not apply to this exchange (skipped case).
func applyCorruption(n *node.Node, c C07Corr, start, limit uint64, reqs []node.Request, batch bool, replies []node.Reply) (status int, body []byte, ok bool) {
	encode := func() []byte {
		if batch {
			b, _ := json.Marshal(replies)
			return b
		}
		b, _ := json.Marshal(replies[0])
		return b
	}
	kind := exchKind(reqs)
	status = 200
	switch c.Kind {
	case "status":
		return []int{404, 429, 500, 502}[c.Arg%4], []byte("upstream says no \x01\x02"), true
	case "status_body":
		// a failure status on top of a complete, well-formed answer
		return []int{404, 429, 500, 502, 503, 301}[c.Arg%6], encode(), true
	case "non_json":
		return 200, []byte("<html>gateway timeout</html>"), true
	case "wrong_shape":
		if batch {
			return 200, []byte(`{"jsonrpc":"2.0","id":null,"result":[]}`), true
		}
		return 200, []byte(`[]`), true
	case "truncate":
		b := encode()
		// structural boundaries: positions of , } ] chosen by Arg
		var cuts []int
		for i, ch := range b {
			if ch == ',' || ch == '}' || ch == ']' || ch == ':' {
				cuts = append(cuts, i)
			}
		}
		if len(cuts) < 2 {
			return 0, nil, false
		}
		cut := cuts[(c.Arg*7919)%(len(cuts)-1)]
		return 200, b[:cut], true
	}
	if c.Elem >= len(replies) {
		return 0, nil, false
	}
	e := c.Elem
	switch c.Kind {
	case "drop":
		if !batch {
			return 0, nil, false
		}
		replies = append(replies[:e:e], replies[e+1:]...)
		return 200, encode(), true
	case "dup":
		if !batch {
			return 0, nil, false
		}
		replies = append(replies[:e+1:e+1], replies[e:]...)
		return 200, encode(), true
	case "swap":
		if !batch || e+1 >= len(replies) {
			return 0, nil, false
		}
		replies[e], replies[e+1] = replies[e+1], replies[e]
		return 200, encode(), true
	case "null":
		replies[e].Result = json.RawMessage("null")
		return 200, encode(), true
	case "error":
		replies[e].Result = nil
		replies[e].Error = &node.RPCError{Code: -32000, Message: "boom"}
		return 200, encode(), true
	case "no_result":
		replies[e].Result = node.OmitResult
		return 200, encode(), true
	}
	// content-level corruptions
	isBlockElem := kind == "blocks" || kind == "headers" || (kind == "logs" && e == 0)
	switch c.Kind {
	case "renumber":
		if !isBlockElem || kind == "logs" {
			return 0, nil, false
		}
		o := asObj(replies[e].Result)
		if o == nil {
			return 0, nil, false
		}
		cur := start + uint64(e)
		nv := []uint64{cur + 1, cur - 1, cur + 1000, 0}[c.Arg%4]
		if nv == cur {
			nv = cur + 7
		}
		o["number"] = hexq(nv)
		replies[e].Result = enc(o)
		return 200, encode(), true
	case "break_parent":
		if !isBlockElem || kind == "logs" || e == 0 {
			return 0, nil, false
		}
		o := asObj(replies[e].Result)
		if o == nil {
			return 0, nil, false
		}
		o["parentHash"] = "0x" + strings.Repeat("ab", 32)
		replies[e].Result = enc(o)
		return 200, encode(), true
	case "break_hash":
		if !isBlockElem || kind == "logs" || e+1 >= len(replies) {
			return 0, nil, false
		}
		o := asObj(replies[e].Result)
		if o == nil {
			return 0, nil, false
		}
		o["hash"] = "0x" + strings.Repeat("cd", 32)
		replies[e].Result = enc(o)
		return 200, encode(), true
	case "move_log_in", "move_log_out", "move_log_tx":
		if kind != "logs" || e != 1 {
			return 0, nil, false
		}
		logs := asArr(replies[1].Result)
		if len(logs) == 0 {
			return 0, nil, false
		}
		li := c.Arg % len(logs)
		l, _ := logs[li].(map[string]any)
		if l == nil || l["blockNumber"] == nil {
			return 0, nil, false
		}
		cur, _ := strconv.ParseUint(strings.TrimPrefix(l["blockNumber"].(string), "0x"), 16, 64)
		switch c.Kind {
		case "move_log_in":
			if limit < 2 {
				return 0, nil, false
			}
			nb := start + (cur-start+1)%limit
			l["blockNumber"] = hexq(nb)
			l["blockHash"] = "0x" + hex.EncodeToString(n.Canonical(nb).Hash)
		case "move_log_out":
			nb := []uint64{start + limit, start - 1, start + limit + 50}[(c.Arg/len(logs))%3]
			l["blockNumber"] = hexq(nb)
			if b := n.Canonical(nb); b != nil {
				l["blockHash"] = "0x" + hex.EncodeToString(b.Hash)
			}
		case "move_log_tx":
			ti, _ := strconv.ParseUint(strings.TrimPrefix(l["transactionIndex"].(string), "0x"), 16, 64)
			l["transactionIndex"] = hexq(ti + 1)
		}
		replies[1].Result = enc(logs)
		return 200, encode(), true
	case "log_tx_beyond":
		// a log of a block that is not the last of the range names a
		// transaction index the block body does not have (the item is then
		// attached to a transaction of that index, and nothing else moves)
		if kind != "logs" || e != 1 {
			return 0, nil, false
		}
		logs := asArr(replies[1].Result)
		var cand []map[string]any
		for _, x := range logs {
			l, _ := x.(map[string]any)
			if l == nil || l["blockNumber"] == nil {
				continue
			}
			cur, _ := strconv.ParseUint(strings.TrimPrefix(l["blockNumber"].(string), "0x"), 16, 64)
			if cur+1 < start+limit {
				cand = append(cand, l)
			}
		}
		if len(cand) == 0 {
			return 0, nil, false
		}
		l := cand[c.Arg%len(cand)]
		cur, _ := strconv.ParseUint(strings.TrimPrefix(l["blockNumber"].(string), "0x"), 16, 64)
		l["transactionIndex"] = hexq(uint64(len(n.Canonical(cur).Txs)) + uint64(c.Arg/len(cand))%2*40)
		l["transactionHash"] = "0x" + hex.EncodeToString(node.Keccak([]byte(fmt.Sprint("beyond", cur))))
		replies[1].Result = enc(logs)
		return 200, encode(), true
	case "trace_tx_beyond":
		if kind != "trace" {
			return 0, nil, false
		}
		ts := asArr(replies[0].Result)
		if len(ts) == 0 {
			return 0, nil, false
		}
		tr, _ := ts[c.Arg%len(ts)].(map[string]any)
		if tr == nil {
			return 0, nil, false
		}
		curf, _ := tr["blockNumber"].(float64)
		if b := n.Canonical(uint64(curf)); b != nil {
			tr["transactionPosition"] = len(b.Txs) + (c.Arg/len(ts))%2*40
			tr["transactionHash"] = "0x" + hex.EncodeToString(node.Keccak([]byte(fmt.Sprint("beyond", uint64(curf)))))
		}
		replies[0].Result = enc(ts)
		return 200, encode(), true
	case "log_hash":
		// one log (not the first of the answer) names another block hash
		if kind != "logs" || len(replies) < 2 {
			return 0, nil, false
		}
		logs := asArr(replies[1].Result)
		if len(logs) < 2 {
			return 0, nil, false
		}
		li := 1 + c.Arg%(len(logs)-1)
		l, _ := logs[li].(map[string]any)
		if l == nil {
			return 0, nil, false
		}
		other := n.Canonical(start + limit + 3)
		if c.Arg%2 == 1 || other == nil {
			l["blockHash"] = "0x" + strings.Repeat("5a", 32)
		} else {
			l["blockHash"] = "0x" + hex.EncodeToString(other.Hash)
		}
		replies[1].Result = enc(logs)
		return 200, encode(), true
	case "reorder_receipts":
		// benign: the receipts of one block in another order (each still names
		// its own transaction): must be attached by name, or refused
		if kind != "receipts" || e >= len(replies) {
			return 0, nil, false
		}
		rs := asArr(replies[e].Result)
		if len(rs) < 2 {
			return 0, nil, false
		}
		if c.Arg%2 == 0 {
			rs = append(rs[1:], rs[0]) // rotate
		} else {
			for i, j := 0, len(rs)-1; i < j; i, j = i+1, j-1 {
				rs[i], rs[j] = rs[j], rs[i]
			}
		}
		replies[e].Result = enc(rs)
		return 200, encode(), true
	case "reorder_logs":
		if kind != "logs" || len(replies) < 2 {
			return 0, nil, false
		}
		logs := asArr(replies[1].Result)
		if len(logs) < 2 {
			return 0, nil, false
		}
		if c.Arg%2 == 0 {
			logs = append(logs[1:], logs[0])
		} else {
			for i, j := 0, len(logs)-1; i < j; i, j = i+1, j-1 {
				logs[i], logs[j] = logs[j], logs[i]
			}
		}
		replies[1].Result = enc(logs)
		return 200, encode(), true
	case "reorder_txs":
		if kind != "blocks" || e >= len(replies) {
			return 0, nil, false
		}
		o := asObj(replies[e].Result)
		if o == nil {
			return 0, nil, false
		}
		txs, _ := o["transactions"].([]any)
		if len(txs) < 2 {
			return 0, nil, false
		}
		txs = append(txs[1:], txs[0])
		o["transactions"] = txs
		replies[e].Result = enc(o)
		return 200, encode(), true
	case "move_receipt_in", "move_receipt_out", "move_first_receipt_in":
		if kind != "receipts" {
			return 0, nil, false
		}
		rs := asArr(replies[e].Result)
		if len(rs) == 0 {
			return 0, nil, false
		}
		ri := 0
		if c.Kind == "move_receipt_in" {
			if len(rs) < 2 {
				return 0, nil, false
			}
			ri = 1 + c.Arg%(len(rs)-1)
		}
		r, _ := rs[ri].(map[string]any)
		if r == nil {
			return 0, nil, false
		}
		cur := start + uint64(e)
		var nb uint64
		if c.Kind == "move_receipt_out" {
			nb = []uint64{start + limit + 1, start - 1, start + limit + 60}[c.Arg%3]
		} else {
			if limit < 2 {
				return 0, nil, false
			}
			nb = start + (cur-start+1)%limit
		}
		r["blockNumber"] = hexq(nb)
		if b := n.Canonical(nb); b != nil {
			r["blockHash"] = "0x" + hex.EncodeToString(b.Hash)
		}
		replies[e].Result = enc(rs)
		return 200, encode(), true
	case "move_trace_in", "move_trace_out", "move_first_trace_in":
		if kind != "trace" {
			return 0, nil, false
		}
		ts := asArr(replies[0].Result)
		if len(ts) == 0 {
			return 0, nil, false
		}
		ti := 0
		if c.Kind == "move_trace_in" {
			if len(ts) < 2 {
				return 0, nil, false
			}
			ti = 1 + c.Arg%(len(ts)-1)
		}
		tr, _ := ts[ti].(map[string]any)
		if tr == nil {
			return 0, nil, false
		}
		curf, _ := tr["blockNumber"].(float64)
		cur := uint64(curf)
		var nb uint64
		if c.Kind == "move_trace_out" {
			nb = []uint64{start + limit, start - 1, start + limit + 70}[c.Arg%3]
		} else {
			if limit < 2 {
				return 0, nil, false
			}
			nb = start + (cur-start+1)%limit
		}
		tr["blockNumber"] = nb
		if b := n.Canonical(nb); b != nil {
			tr["blockHash"] = "0x" + hex.EncodeToString(b.Hash)
		}
		replies[0].Result = enc(ts)
		return 200, encode(), true
	}
	return 0, nil, false
}

// ---- expectation from the (possibly corrupted) exchanges ----

type xLog struct {
	addr, data string
	topics     []string
}
type xTrace struct{ from, to, ct, value string }
type xTx struct {
	known                         bool // tx object from a full block
	from, to, input, value, nonce string
	hash                          string
	logs                          map[uint64]xLog
	hasRcpt                       bool
	status                        uint64
	gasUsed                       uint64
	contract                      string
	traces                        []xTrace
}
type xBlock struct {
	num          uint64
	hash, parent string
	time         uint64
	haveHeader   bool
	txs          map[uint64]*xTx
}

func (b *xBlock) tx(i uint64) *xTx {
	if b.txs[i] == nil {
		b.txs[i] = &xTx{logs: map[uint64]xLog{}}
	}
	return b.txs[i]
}

func hxU(v any) (uint64, bool) {
	s, ok := v.(string)
	if !ok || !strings.HasPrefix(s, "0x") {
		return 0, false
	}
	n, err := strconv.ParseUint(s[2:], 16, 64)
	return n, err == nil
}

func lowerHex(v any) string {
	s, _ := v.(string)
	return strings.ToLower(strings.TrimPrefix(s, "0x"))
}

// c07Expect classifies the exchanges and, when well-formed, builds the
// expected blocks. reason is non-empty when not well-formed.
func c07Expect(cs *C07Case, ex []*c07Exchange) (blocks []*xBlock, reason string) {
	unspecified := ""
	defer func() {
		if reason == "" && unspecified != "" {
			reason = unspecified
		}
	}()
	byNum := map[uint64]*xBlock{}
	for i := uint64(0); i < cs.Limit; i++ {
		b := &xBlock{num: cs.Start + i, txs: map[uint64]*xTx{}}
		blocks = append(blocks, b)
		byNum[b.num] = b
	}
	inRange := func(n uint64) bool { return n >= cs.Start && n < cs.Start+cs.Limit }
	for _, e := range ex {
		if e.status/100 != 2 {
			return nil, fmt.Sprintf("%s: HTTP status %d", e.kind, e.status)
		}
		var elems []map[string]any
		if e.batch {
			var arr []any
			if err := json.Unmarshal(e.body, &arr); err != nil {
				return nil, e.kind + ": body is not a JSON array"
			}
			if len(arr) < len(e.reqs) {
				return nil, fmt.Sprintf("%s: missing results: %d responses for %d requests", e.kind, len(arr), len(e.reqs))
			}
			// surplus trailing elements are not in the property's must-fail
			// list: only the elements answering the requests are judged
			arr = arr[:len(e.reqs)]
			for _, a := range arr {
				m, ok := a.(map[string]any)
				if !ok {
					return nil, e.kind + ": batch element is not an object"
				}
				elems = append(elems, m)
			}
		} else {
			var m map[string]any
			if err := json.Unmarshal(e.body, &m); err != nil {
				return nil, e.kind + ": body is not a JSON object"
			}
			elems = []map[string]any{m}
		}
		for i, m := range elems {
			if er, ok := m["error"]; ok && er != nil {
				return nil, fmt.Sprintf("%s: element %d carries an error member", e.kind, i)
			}
			if m["result"] == nil {
				return nil, fmt.Sprintf("%s: element %d has a null/missing result", e.kind, i)
			}
		}
		switch e.kind {
		case "blocks", "headers":
			var prevHash string
			for i, m := range elems {
				o, ok := m["result"].(map[string]any)
				if !ok {
					return nil, e.kind + ": result is not an object"
				}
				num, ok := hxU(o["number"])
				want := cs.Start + uint64(i)
				if !ok || num != want {
					return nil, fmt.Sprintf("%s: element %d is block %v, requested %d", e.kind, i, o["number"], want)
				}
				if i > 0 && lowerHex(o["parentHash"]) != prevHash {
					return nil, fmt.Sprintf("%s: block %d does not link to its predecessor", e.kind, num)
				}
				prevHash = lowerHex(o["hash"])
				b := byNum[num]
				b.haveHeader = true
				b.hash, b.parent = lowerHex(o["hash"]), lowerHex(o["parentHash"])
				b.time, _ = hxU(o["timestamp"])
				if e.kind == "blocks" {
					txs, _ := o["transactions"].([]any)
					for _, t := range txs {
						tm, ok := t.(map[string]any)
						if !ok {
							return nil, "blocks: transaction is not an object"
						}
						idx, _ := hxU(tm["transactionIndex"])
						x := b.tx(idx)
						x.known = true
						x.hash = lowerHex(tm["hash"])
						x.from, x.to, x.input = lowerHex(tm["from"]), lowerHex(tm["to"]), lowerHex(tm["input"])
						x.value, x.nonce = lowerHex(tm["value"]), lowerHex(tm["nonce"])
					}
				}
			}
		case "receipts":
			for i, m := range elems {
				rs, ok := m["result"].([]any)
				if !ok {
					return nil, "receipts: result is not an array"
				}
				for _, r := range rs {
					rm, ok := r.(map[string]any)
					if !ok {
						return nil, "receipts: receipt is not an object"
					}
					num, ok := hxU(rm["blockNumber"])
					if !ok || !inRange(num) {
						return nil, fmt.Sprintf("receipts: element %d names block %v outside the requested range", i, rm["blockNumber"])
					}
					b := byNum[num]
					idx, _ := hxU(rm["transactionIndex"])
					x := b.tx(idx)
					x.hasRcpt = true
					x.status, _ = hxU(rm["status"])
					x.gasUsed, _ = hxU(rm["gasUsed"])
					x.contract = lowerHex(rm["contractAddress"])
					if x.hash == "" {
						x.hash = lowerHex(rm["transactionHash"])
					}
					if !b.haveHeader {
						b.hash = lowerHex(rm["blockHash"])
					}
					ls, _ := rm["logs"].([]any)
					for _, l := range ls {
						lm := l.(map[string]any)
						li, _ := hxU(lm["logIndex"])
						x.logs[li] = mkLog(lm)
					}
				}
			}
		case "logs":
			hdr, ok := elems[0]["result"].(map[string]any)
			if !ok || hdr["number"] == nil {
				return nil, "logs: header element is not a block"
			}
			ls, ok := elems[1]["result"].([]any)
			if !ok {
				return nil, "logs: result is not an array"
			}
			for _, l := range ls {
				lm, ok := l.(map[string]any)
				if !ok {
					return nil, "logs: log is not an object"
				}
				num, ok := hxU(lm["blockNumber"])
				if !ok || !inRange(num) {
					return nil, fmt.Sprintf("logs: a log names block %v outside the requested range", lm["blockNumber"])
				}
				b := byNum[num]
				idx, _ := hxU(lm["transactionIndex"])
				x := b.tx(idx)
				li, _ := hxU(lm["logIndex"])
				if prev, dup := x.logs[li]; dup && fmt.Sprint(prev) != fmt.Sprint(mkLog(lm)) {
					// two different logs claim the same (block, transaction, log
					// index): the property does not say which one a caller gets
					unspecified = fmt.Sprintf("unspecified: two different logs with index %d in block %d tx %d", li, num, idx)
				}
				x.logs[li] = mkLog(lm)
				if x.hash == "" {
					x.hash = lowerHex(lm["transactionHash"])
				}
				// "hash-linked where hashes are supplied ... attached to the block
				// it names": the hash a log names must be the block's (the
				// fetched header's, or the one the other logs of the block name)
				if lh := lowerHex(lm["blockHash"]); lh != "" {
					if b.hash != "" && lh != b.hash {
						return nil, fmt.Sprintf("logs: a log of block %d names a block hash other than the block's", num)
					}
					if !b.haveHeader {
						b.hash = lh
					}
				}
			}
		case "trace":
			ts, ok := elems[0]["result"].([]any)
			if !ok {
				return nil, "trace: result is not an array"
			}
			for _, t := range ts {
				tm, ok := t.(map[string]any)
				if !ok {
					return nil, "trace: entry is not an object"
				}
				nf, ok := tm["blockNumber"].(float64)
				num := uint64(nf)
				if !ok || !inRange(num) {
					return nil, fmt.Sprintf("trace: an entry names block %v outside the requested range", tm["blockNumber"])
				}
				if num != e.block {
					return nil, fmt.Sprintf("trace: trace_block(%d) answered with an entry of block %d", e.block, num)
				}
				b := byNum[num]
				pos, _ := tm["transactionPosition"].(float64)
				x := b.tx(uint64(pos))
				act, _ := tm["action"].(map[string]any)
				ct, _ := act["callType"].(string)
				x.traces = append(x.traces, xTrace{lowerHex(act["from"]), lowerHex(act["to"]), ct, lowerHex(act["value"])})
				if !b.haveHeader {
					b.hash = lowerHex(tm["blockHash"])
				}
			}
		}
	}
	return blocks, ""
}

func mkLog(lm map[string]any) xLog {
	l := xLog{addr: lowerHex(lm["address"]), data: lowerHex(lm["data"])}
	ts, _ := lm["topics"].([]any)
	for _, t := range ts {
		l.topics = append(l.topics, lowerHex(t))
	}
	return l
}

func hexOf(b []byte) string { return hex.EncodeToString(b) }

func trimHexNum(s string) string {
	s = strings.TrimLeft(s, "0")
	return s
}

// c07Compare checks Get's output against the expectation.
func c07Compare(cs *C07Case, want []*xBlock, got []eth.Block) string {
	if len(got) != len(want) {
		return fmt.Sprintf("Get returned %d blocks, %d requested", len(got), len(want))
	}
	for i := range got {
		g, w := &got[i], want[i]
		if g.Num() != w.num {
			return fmt.Sprintf("block %d of the result is number %d, requested %d", i, g.Num(), w.num)
		}
		if w.haveHeader {
			if hexOf(g.Header.Hash) != w.hash {
				return fmt.Sprintf("block %d: hash %s, source reported %s", w.num, hexOf(g.Header.Hash), w.hash)
			}
			if hexOf(g.Header.Parent) != w.parent {
				return fmt.Sprintf("block %d: parent hash differs", w.num)
			}
			if uint64(g.Header.Time) != w.time {
				return fmt.Sprintf("block %d: time differs", w.num)
			}
			if i > 0 && hexOf(got[i].Header.Parent) != hexOf(got[i-1].Header.Hash) {
				return fmt.Sprintf("blocks %d and %d are not hash-linked", got[i-1].Num(), w.num)
			}
		}
		gtx := map[uint64]*eth.Tx{}
		for k := range g.Txs {
			gtx[uint64(g.Txs[k].Idx)] = &g.Txs[k]
		}
		var idxs []uint64
		for k := range w.txs {
			idxs = append(idxs, k)
		}
		sort.Slice(idxs, func(a, b int) bool { return idxs[a] < idxs[b] })
		for _, ti := range idxs {
			wt := w.txs[ti]
			gt := gtx[ti]
			if gt == nil {
				if len(wt.logs) > 0 || wt.hasRcpt || len(wt.traces) > 0 || wt.known {
					return fmt.Sprintf("block %d: transaction %d named by the responses is missing", w.num, ti)
				}
				continue
			}
			if wt.known {
				if hexOf(gt.From) != wt.from || hexOf(gt.To) != wt.to || hexOf(gt.Data) != wt.input {
					return fmt.Sprintf("block %d tx %d: from/to/input differ from the source's", w.num, ti)
				}
				if trimHexNum(gt.Value.Hex()[2:]) != trimHexNum(wt.value) {
					return fmt.Sprintf("block %d tx %d: value differs", w.num, ti)
				}
			}
			// logs
			if cs.R || cs.L {
				gl := map[uint64]xLog{}
				for _, l := range gt.Logs {
					x := xLog{addr: hexOf(l.Address), data: hexOf(l.Data)}
					for _, t := range l.Topics {
						x.topics = append(x.topics, hexOf(t))
					}
					if _, dup := gl[uint64(l.Idx)]; dup {
						return fmt.Sprintf("block %d tx %d: log %d attached twice", w.num, ti, l.Idx)
					}
					gl[uint64(l.Idx)] = x
				}
				if len(gl) != len(wt.logs) {
					return fmt.Sprintf("block %d tx %d: %d logs attached, the responses name %d for it", w.num, ti, len(gl), len(wt.logs))
				}
				for li, wl := range wt.logs {
					x, ok := gl[li]
					if !ok || x.addr != wl.addr || x.data != wl.data || strings.Join(x.topics, ",") != strings.Join(wl.topics, ",") {
						return fmt.Sprintf("block %d tx %d: log %d missing or changed", w.num, ti, li)
					}
				}
			}
			if cs.R && wt.hasRcpt {
				if uint64(gt.Status) != wt.status || uint64(gt.GasUsed) != wt.gasUsed || hexOf(gt.ContractAddress) != wt.contract {
					return fmt.Sprintf("block %d tx %d: receipt fields differ", w.num, ti)
				}
			}
			if cs.T && !cs.R && !cs.L {
				if len(gt.TraceActions) != len(wt.traces) {
					return fmt.Sprintf("block %d tx %d: %d traces attached, the responses name %d for it", w.num, ti, len(gt.TraceActions), len(wt.traces))
				}
				for k, wtr := range wt.traces {
					ga := gt.TraceActions[k]
					if hexOf(ga.From) != wtr.from || hexOf(ga.To) != wtr.to || ga.CallType != wtr.ct || trimHexNum(ga.Value.Hex()[2:]) != trimHexNum(wtr.value) {
						return fmt.Sprintf("block %d tx %d: trace %d differs", w.num, ti, k)
					}
				}
			}
		}
		for ti, gt := range gtx {
			if w.txs[ti] == nil && (len(gt.Logs) > 0 || len(gt.TraceActions) > 0) {
				return fmt.Sprintf("block %d: transaction %d carries data no response named for it", w.num, ti)
			}
		}
	}
	return ""
}

func (cs *C07Case) filter() *glf.Filter {
	if len(cs.Needs) > 0 {
		f := glf.New(cs.Needs, cs.Addrs, [][]string{{"0x" + hex.EncodeToString(model.SigHash(transferEvent()))}})
		cs.H, cs.B, cs.R, cs.L, cs.T = f.UseHeaders, f.UseBlocks, f.UseReceipts, f.UseLogs, f.UseTraces
		return f
	}
	cs.H = strings.Contains(cs.Flags, "h")
	cs.B = strings.Contains(cs.Flags, "b")
	cs.R = strings.Contains(cs.Flags, "r")
	cs.L = strings.Contains(cs.Flags, "l")
	cs.T = strings.Contains(cs.Flags, "t")
	return &glf.Filter{UseHeaders: cs.H, UseBlocks: cs.B, UseReceipts: cs.R, UseLogs: cs.L, UseTraces: cs.T}
}

var c07IDRE = regexp.MustCompile(`"id":"[^"]*"`)

// RunC07 executes one case.
func RunC07(t *testing.T, plan *Plan, st *core.Stream, extra Extra, keepLog bool) *Result {
	installHooks()
	cs := plan.C07
	res := &Result{Prop: "C07", Seed: plan.Seed, Stats: map[string]int{}, PlanDigest: fmt.Sprintf("flags=%s needs=%v start=%d limit=%d corr=%v", cs.Flags, cs.Needs, cs.Start, cs.Limit, cs.Corr)}
	n := c07Node()
	f := cs.filter()
	var ex []*c07Exchange
	applied := 0
	phase := 0
	directMu.Lock()
	defer directMu.Unlock()
	directRT = func(url string, body []byte) (int, []byte, error) {
		reqs, batch, err := node.ParseBody(body)
		if err != nil {
			return 0, nil, err
		}
		k := len(ex)
		replies := n.Serve("c07", reqs, nil)
		e := &c07Exchange{reqs: reqs, batch: batch, status: 200, kind: exchKind(reqs)}
		if e.kind == "trace" {
			var s string
			json.Unmarshal(reqs[0].Params[0], &s)
			e.block, _ = strconv.ParseUint(strings.TrimPrefix(s, "0x"), 16, 64)
		}
		if batch {
			e.body, _ = json.Marshal(replies)
		} else {
			e.body, _ = json.Marshal(replies[0])
		}
		for _, c := range cs.Corr {
			if c.Exch != k || phase != 0 {
				continue
			}
			// re-decode the current body into replies so that combinations stack
			var cur []node.Reply
			if batch {
				var raw []json.RawMessage
				if json.Unmarshal(e.body, &raw) == nil {
					for _, r := range raw {
						var rp struct {
							ID     json.RawMessage `json:"id"`
							Result json.RawMessage `json:"result"`
							Error  *node.RPCError  `json:"error"`
						}
						json.Unmarshal(r, &rp)
						cur = append(cur, node.Reply{ID: rp.ID, Result: rp.Result, Error: rp.Error})
					}
				}
			} else {
				var rp struct {
					ID     json.RawMessage `json:"id"`
					Result json.RawMessage `json:"result"`
					Error  *node.RPCError  `json:"error"`
				}
				if json.Unmarshal(e.body, &rp) == nil {
					cur = []node.Reply{{ID: rp.ID, Result: rp.Result, Error: rp.Error}}
				}
			}
			if len(cur) == 0 || e.status != 200 {
				continue
			}
			s, b, ok := applyCorruption(n, c, cs.Start, cs.Limit, reqs, batch, cur)
			if ok {
				e.status, e.body = s, b
				applied++
			}
		}
		ex = append(ex, e)
		return e.status, e.body, nil
	}
	defer func() { directRT = nil }()
	url := "http://c07-nocache.sim"
	if cs.Retry {
		url = "http://c07-cached.sim"
		res.PlanDigest += " retry"
	}
	cl := jrpc2.New(url)
	if cs.Warm {
		ws := cs.Start + cs.Limit
		if n.Canonical(ws+cs.Limit-1) == nil {
			ws = 1
		}
		phase = -1
		func() {
			defer func() { recover() }()
			if _, werr := cl.Get(context.Background(), url, f, ws, cs.Limit); werr != nil {
				res.HarnessErr = fmt.Sprintf("C07 warm-up Get failed: %v", werr)
			}
		}()
		phase = 0
		ex = nil
		res.PlanDigest += " warm"
	}
	var got []eth.Block
	var err error
	func() {
		defer func() {
			if r := recover(); r != nil {
				err = fmt.Errorf("PANIC: %v", r)
				res.Violations = append(res.Violations, Violation{Class: panicClass(r), Msg: fmt.Sprintf("Get panicked on %s: %v", res.PlanDigest, r)})
			}
		}()
		got, err = cl.Get(context.Background(), url, f, cs.Start, cs.Limit)
	}()
	var (
		ex1       = ex
		got2      []eth.Block
		err2      error
		exRef     []*c07Exchange
		retryDone bool
	)
	if cs.Retry && len(res.Violations) == 0 && applied > 0 {
		phase = 1
		ex = nil
		func() {
			defer func() {
				if r := recover(); r != nil {
					err2 = fmt.Errorf("PANIC: %v", r)
					res.Violations = append(res.Violations, Violation{Class: panicClass(r), Msg: fmt.Sprintf("second Get panicked on %s: %v", res.PlanDigest, r)})
				}
			}()
			got2, err2 = cl.Get(context.Background(), url, f, cs.Start, cs.Limit)
		}()
		res.Stats["retry_exchanges"] = len(ex)
		// reference: an uncached client on clean responses
		ex = nil
		ref := jrpc2.New("http://c07-nocache.sim")
		if _, rerr := ref.Get(context.Background(), "http://c07-nocache.sim", f, cs.Start, cs.Limit); rerr != nil {
			res.HarnessErr = fmt.Sprintf("C07 retry reference Get failed: %v", rerr)
		}
		exRef = ex
		retryDone = true
		ex = ex1
	}
	res.Steps = len(ex)
	res.Stats["exchanges"] = len(ex)
	if len(cs.Corr) > 0 && applied == 0 {
		res.Stats["skipped_not_applicable"] = 1
		res.LogHash = "skip"
		return res
	}
	for _, c := range cs.Corr {
		res.Stats["fault_corrupt_"+c.Kind]++
		res.Stats["fault_total"]++
	}
	want, reason := c07Expect(cs, ex)
	var sb strings.Builder
	for _, e := range ex {
		// request ids carry crypto/rand bytes and are echoed in the answers
		fmt.Fprintf(&sb, "%s %d %x\n", e.kind, e.status, node.Keccak(c07IDRE.ReplaceAll(e.body, []byte(`"id":"x"`)))[:6])
	}
	res.LogHash = fmt.Sprintf("%x", node.Keccak([]byte(res.PlanDigest + sb.String()))[:8])
	res.NonTrivial = len(cs.Corr) > 0
	res.StateHash = res.LogHash
	switch {
	case len(res.Violations) > 0:
	case strings.HasPrefix(reason, "unspecified:"):
		res.Stats["unspecified_response_not_judged"] = 1
		retryDone = false
	case reason != "" && err == nil:
		res.Violations = append(res.Violations, Violation{Class: "accepted-malformed/" + reasonClass(reason), Msg: fmt.Sprintf("Get succeeded although the responses were not well-formed (%s); case %s", reason, res.PlanDigest)})
	case reason == "" && err != nil && len(cs.Corr) == 0:
		res.Violations = append(res.Violations, Violation{Class: "rejected-wellformed", Msg: fmt.Sprintf("Get failed on uncorrupted responses: %v; case %s", err, res.PlanDigest)})
	case err == nil:
		if msg := c07Compare(cs, want, got); msg != "" {
			res.Violations = append(res.Violations, Violation{Class: "misplaced-or-changed-data/" + exKinds(ex), Msg: msg + "; case " + res.PlanDigest})
		}
		res.Stats["get_ok"] = 1
	default:
		res.Stats["get_error"] = 1
		if reason == "" {
			res.Stats["benign_corruption_rejected"] = 1
		}
	}
	if retryDone && len(res.Violations) == 0 && res.HarnessErr == "" && err == nil {
		// the first Get succeeded: what it returned is what the source said
		// (an undetectable change, e.g. another hash on the last block of the
		// range, included), and the cache may serve exactly that again
		res.Stats["retry_after_success_not_judged"] = 1
	} else if retryDone && len(res.Violations) == 0 && res.HarnessErr == "" {
		res.Stats["retry_cases"] = 1
		if err2 != nil {
			res.Stats["retry_failed"] = 1
		} else {
			wantRef, reasonRef := c07Expect(cs, exRef)
			if reasonRef != "" {
				res.HarnessErr = "C07 retry reference exchanges not well-formed: " + reasonRef
			} else if msg := c07Compare(cs, wantRef, got2); msg != "" {
				cls := "retry-served-other-data"
				if reason != "" && err != nil {
					cls = "retry-served-rejected-data"
				}
				res.Violations = append(res.Violations, Violation{Class: cls + "/" + exKinds(ex1), Msg: fmt.Sprintf("the first Get hit a corrupted response (%s; first Get error: %v); the second Get for the same range saw only clean responses but returned: %s; case %s", reason, err, msg, res.PlanDigest)})
			} else {
				res.Stats["retry_ok"] = 1
			}
		}
	}
	if keepLog {
		res.LogTail = strings.Split(sb.String(), "\n")
		if err != nil {
			res.LogTail = append(res.LogTail, "Get error: "+err.Error())
		}
		res.LogTail = append(res.LogTail, "well-formedness: "+reason)
	}
	return res
}

var c07Flags = []string{"h", "b", "hl", "bl", "br", "hr", "bt", "ht", "l", "r", "t", "hbrlt", "blt", "hlt"}
var c07NeedSets = [][]string{
	{"block_num", "block_hash", "log_addr", "log_idx", "tx_hash"},
	{"block_time", "log_addr"},
	{"tx_input", "tx_value", "log_idx"},
	{"tx_status", "tx_gas_used"},
	{"tx_status", "tx_input"},
	{"trace_action_from", "trace_action_value"},
	{"trace_action_to", "tx_input"},
	{"block_time"},
	{"tx_signer", "tx_nonce"},
}
var c07Kinds = []string{"status", "non_json", "wrong_shape", "truncate", "drop", "dup", "swap", "null", "error", "renumber", "break_parent", "break_hash",
	"move_log_in", "move_log_out", "move_log_tx", "move_receipt_in", "move_first_receipt_in", "move_receipt_out", "move_trace_in", "move_first_trace_in", "move_trace_out",
	"reorder_receipts", "reorder_logs", "reorder_txs", "log_hash", "log_tx_beyond", "trace_tx_beyond", "status_body", "no_result"}

var (
	c07Once  sync.Once
	c07Cases []*C07Case
)

func c07Init() {
	c07Once.Do(func() {
		var bases []*C07Case
		for _, fl := range c07Flags {
			bases = append(bases, &C07Case{Flags: fl})
		}
		for _, ns := range c07NeedSets {
			bases = append(bases, &C07Case{Needs: ns})
		}
		bases = append(bases, &C07Case{Needs: c07NeedSets[0], Addrs: []string{"0x00000000000000000000000000000000000000a1"}})
		// long ranges (more blocks than any small chunk size): the
		// link-breaking kinds at every position of the range
		for _, b := range bases {
			if ff := b.filter(); !(ff.UseBlocks || ff.UseHeaders) {
				continue
			}
			for _, limit := range []uint64{11, 21} {
				base := *b
				base.Start, base.Limit = 3, limit
				c0 := base
				c07Cases = append(c07Cases, &c0)
				for _, kind := range []string{"break_parent", "break_hash", "renumber", "swap", "null"} {
					for e := 0; e < int(limit); e++ {
						c := base
						c.Corr = []C07Corr{{Exch: 0, Kind: kind, Elem: e, Arg: e % 3}}
						c07Cases = append(c07Cases, &c)
					}
				}
			}
		}
		for _, b := range bases {
			for _, start := range []uint64{1, 7} {
				for limit := uint64(1); limit <= 4; limit++ {
					base := *b
					base.Start, base.Limit = start, limit
					c0 := base
					c07Cases = append(c07Cases, &c0) // uncorrupted: must succeed
					maxEx := 2
					if strings.Contains(base.Flags, "t") || len(base.Needs) > 0 {
						maxEx = 1 + int(limit)
					}
					for exch := 0; exch < maxEx; exch++ {
						for _, kind := range c07Kinds {
							elems := 1
							switch kind {
							case "drop", "dup", "swap", "null", "error", "no_result", "renumber", "break_parent", "break_hash", "move_receipt_in", "move_first_receipt_in", "move_receipt_out", "reorder_receipts", "reorder_txs":
								elems = int(limit)
								if elems < 2 {
									elems = 2
								}
							}
							args := 1
							switch kind {
							case "status":
								args = 4
							case "status_body":
								args = 6
							case "truncate":
								args = 6
							case "renumber":
								args = 3
							case "move_log_in", "move_log_tx", "move_trace_in", "reorder_receipts", "reorder_logs":
								args = 2
							case "log_hash":
								args = 6
							case "log_tx_beyond", "trace_tx_beyond":
								args = 4
							case "move_log_out", "move_receipt_out", "move_trace_out":
								args = 3
							}
							for e := 0; e < elems; e++ {
								for a := 0; a < args; a++ {
									c := base
									c.Corr = []C07Corr{{Exch: exch, Kind: kind, Elem: e, Arg: a}}
									c07Cases = append(c07Cases, &c)
									if ff := c.filter(); ff.UseBlocks || ff.UseHeaders {
										r := c
										r.Retry = true
										c07Cases = append(c07Cases, &r)
									}
									switch kind {
									case "null", "no_result", "error", "wrong_shape", "drop", "truncate":
										wc := c
										wc.Warm = true
										c07Cases = append(c07Cases, &wc)
									}
								}
							}
						}
					}
				}
			}
		}
	})
}

func C07Indexed(t *testing.T, i int, seedBase uint64) (*Plan, bool) {
	c07Init()
	p := &Plan{Prop: "C07", Checks: map[string]bool{}}
	if i < len(c07Cases) {
		c := *c07Cases[i]
		p.C07 = &c
		p.Checks["enumerated"] = true
		return p, true
	}
	// seeded random combinations of 2-3 corruptions
	g := NewG(RunSeed(seedBase, "C07", i))
	p.Seed = RunSeed(seedBase, "C07", i)
	base := *c07Cases[g.R.IntN(len(c07Cases))]
	base.Corr = nil
	k := g.between(2, 3)
	for j := 0; j < k; j++ {
		base.Corr = append(base.Corr, C07Corr{Exch: g.R.IntN(3), Kind: c07Kinds[g.R.IntN(len(c07Kinds))], Elem: g.R.IntN(4), Arg: g.R.IntN(6)})
	}
	p.C07 = &base
	return p, true
}

func init() {
	Indexed["C07"] = C07Indexed
	Runners["C07"] = RunC07
	EnumSize["C07"] = func(t *testing.T) int { c07Init(); return len(c07Cases) }
	EnumSize["C02"] = C02EnumSize
}

// direct transport plumbing
func directRoundTrip(req *http.Request, body []byte) (*http.Response, error) {
	status, rb, err := directRT(req.URL.String(), body)
	if err != nil {
		return nil, err
	}
	return &http.Response{Status: fmt.Sprint(status), StatusCode: status, Proto: "HTTP/1.1", ProtoMajor: 1, ProtoMinor: 1,
		Header: http.Header{"Content-Type": []string{"application/json"}}, Body: io.NopCloser(bytes.NewReader(rb)), ContentLength: int64(len(rb)), Request: req}, nil
}

// reasonClass turns a well-formedness reason into a stable class name:
// exchange kind plus the reason with numbers blanked.
func reasonClass(reason string) string {
	r := digitsRE.ReplaceAllString(reason, "N")
	r = strings.ReplaceAll(r, "0xN", "N")
	if len(r) > 60 {
		r = r[:60]
	}
	return r
}

func exKinds(ex []*c07Exchange) string {
	seen := map[string]bool{}
	var ks []string
	for _, e := range ex {
		if !seen[e.kind] {
			seen[e.kind] = true
			ks = append(ks, e.kind)
		}
	}
	return strings.Join(ks, "+")
}
