package harness

import (
	"fmt"
	"os"
	"sort"
	"strings"
)

// Race-report capture for C18. The worker is started with
// GORACE="halt_on_error=0 exitcode=0 log_path=<prefix>", so the runtime appends
// every report to <prefix>.<pid>; after each simulated run the worker reads what
// was added and turns each report into a violation whose class names the pair
// of shovel functions performing the two conflicting accesses.

var raceLogOff int64

func raceLogPath() string {
	p := os.Getenv("VERIF_RACELOG")
	if p == "" {
		return ""
	}
	return fmt.Sprintf("%s.%d", p, os.Getpid())
}

const repoPrefix = "github.com/indexsupply/shovel/"

type raceStack struct {
	op     string // "Write" / "Read" / "Previous write" ...
	frames []string
	locs   []string
}

// signature returns the repo part of the stack that identifies the access:
// the shovel frames from the accessing function outwards, at most three and
// stopping at the first frame outside package eth and jrpc2.setHash (those are
// leaf helpers called from many places), joined by "<". Also the top frame
// and whether the access itself was performed by harness code.
func (s raceStack) firstRepoFrame() (repo string, top string, harnessTop bool) {
	if len(s.frames) > 0 {
		top = s.frames[0]
		harnessTop = strings.HasPrefix(top, "verifsim/")
	}
	var parts []string
	for _, f := range s.frames {
		if !strings.HasPrefix(f, repoPrefix) || strings.HasPrefix(f, repoPrefix+"verifhook") {
			if len(parts) > 0 {
				break
			}
			continue
		}
		n := strings.TrimPrefix(f, repoPrefix)
		parts = append(parts, n)
		if len(parts) == 3 || !(strings.HasPrefix(n, "eth.") || n == "jrpc2.setHash") {
			break
		}
	}
	return strings.Join(parts, "<"), top, harnessTop
}

func parseRaceReports(text string) (viol []Violation, ignored int, harness int) {
	blocks := strings.Split(text, "==================")
	for _, b := range blocks {
		if !strings.Contains(b, "WARNING: DATA RACE") {
			continue
		}
		var stacks []raceStack
		var cur *raceStack
		lines := strings.Split(b, "\n")
		for _, l := range lines {
			t := strings.TrimSpace(l)
			switch {
			case strings.HasPrefix(t, "Goroutine ") && strings.Contains(t, "created at"):
				cur = nil
				goto next
			case (strings.HasPrefix(t, "Write at") || strings.HasPrefix(t, "Read at") || strings.HasPrefix(t, "Previous write at") || strings.HasPrefix(t, "Previous read at") ||
				strings.HasPrefix(t, "Atomic write at") || strings.HasPrefix(t, "Atomic read at") || strings.HasPrefix(t, "Previous atomic")) && strings.Contains(t, "by "):
				stacks = append(stacks, raceStack{op: strings.SplitN(t, " at ", 2)[0]})
				cur = &stacks[len(stacks)-1]
			case t == "":
				cur = nil
			case cur != nil && strings.HasPrefix(l, "  ") && !strings.HasPrefix(l, "      "):
				f := t
				if i := strings.LastIndex(f, "("); i > 0 {
					f = f[:i]
				}
				cur.frames = append(cur.frames, f)
			case cur != nil && strings.HasPrefix(l, "      "):
				loc := strings.Fields(t)
				if len(loc) > 0 {
					cur.locs = append(cur.locs, loc[0])
				}
			}
		}
	next:
		if len(stacks) < 2 {
			ignored++
			continue
		}
		a, atop, ah := stacks[0].firstRepoFrame()
		c, ctop, ch := stacks[1].firstRepoFrame()
		if ah || ch {
			harness++
			continue
		}
		if a == "" && c == "" {
			ignored++
			continue
		}
		if a == "" {
			a = "(outside shovel: " + atop + ")"
		}
		if c == "" {
			c = "(outside shovel: " + ctop + ")"
		}
		pair := []string{a, c}
		sort.Strings(pair)
		msg := strings.TrimSpace(b)
		if len(msg) > 6000 {
			msg = msg[:6000]
		}
		viol = append(viol, Violation{Class: "race: " + pair[0] + " <-> " + pair[1], Msg: msg})
	}
	return
}

// collectRaces reads the race reports written since the last call.
func collectRaces(res *Result) {
	p := raceLogPath()
	if p == "" {
		return
	}
	b, err := os.ReadFile(p)
	if err != nil {
		return
	}
	if int64(len(b)) <= raceLogOff {
		return
	}
	text := string(b[raceLogOff:])
	raceLogOff = int64(len(b))
	v, ign, har := parseRaceReports(text)
	seen := map[string]bool{}
	for _, x := range v {
		if seen[x.Class] {
			continue
		}
		seen[x.Class] = true
		x.Step = res.Steps
		res.Violations = append(res.Violations, x)
	}
	if res.Stats != nil {
		res.Stats["race_reports"] += len(v)
		res.Stats["race_reports_ignored_no_shovel_frame"] += ign
		res.Stats["race_reports_harness_access"] += har
	}
}

// raceOnly keeps, for plans checked for data races only, the race and panic
// classes; what the functional oracles said in such a run is counted, not
// reported (the functional properties have their own checks).
func raceOnly(plan *Plan, res *Result) {
	if plan == nil || !plan.Checks["race_only"] || os.Getenv("VERIF_KEEP_FUNCTIONAL") != "" {
		return
	}
	var keep []Violation
	for _, v := range res.Violations {
		if strings.HasPrefix(v.Class, "race:") || strings.HasPrefix(v.Class, "panic") {
			keep = append(keep, v)
		} else if res.Stats != nil {
			res.Stats["functional_oracle_note:"+v.Class]++
		}
	}
	res.Violations = keep
}
