package harness

import (
	"bytes"
	"encoding/json"
	"fmt"
	"net/http/httptest"
	"sort"
	"strings"
	"sync"
	"testing"

	"verifsim/core"
	"verifsim/model"

	"github.com/indexsupply/shovel/shovel/config"
)

// C15 — no configuration string reaches SQL text unless it passed the
// identifier check. A valid base configuration; for each string-valued
// position of the configuration tree (walked generically over the JSON) one
// variant carrying a marker with characters outside [letters digits _ -];
// each variant goes through the file path (ValidateFix -> Migrate -> tasks)
// and, for integrations, through the dashboard path (SaveIntegration ->
// Restart). Accepted variants are run through every phase that builds SQL
// (migration, task start, steps with reference lookups and notifications, a
// reorg). Oracle at the PG seam: no SQL text ever received contains a marker.

const c15Marker = `MRK'";)--$(x `

type C15Case struct {
	Path     string          `json:"path"` // file | dashboard
	Where    string          `json:"where"`
	Config   json.RawMessage `json:"config,omitempty"`   // file path: the whole variant configuration
	Submit   json.RawMessage `json:"submit,omitempty"`   // dashboard path: the submitted integration
	Original string          `json:"original,omitempty"` // value that was replaced
}

func c15BasePlan() *Plan {
	p := &Plan{Prop: "C15", Seed: 0xC15, Checks: map[string]bool{}}
	p.Sources = []SourcePlan{{Name: "s0", ChainID: 15, NURLs: 1, Batch: 2, Conc: 1, PollMs: 100, InitLen: 10}}
	p.Content = ContentPlan{TxMax: 2, MinTx: 1, LogMax: 3, MinLogs: 1, EmptyPct: 0, MarkStrings: true,
		Addrs: []string{"0x00000000000000000000000000000000000000a1", "0x00000000000000000000000000000000000000a2"}}
	ref := &model.Decl{Name: "ref0", Enabled: true, Sources: []model.SrcRef{{Name: "s0", Start: 1}},
		Event: &model.Event{Name: "Created", Type: "event", Inputs: []model.Input{{Name: "pool", Type: "address", Column: "c_pool"}, {Name: "memo", Type: "string", Column: "c_memo"}}}}
	ref.Table = model.Table{Name: "t_ref0", Columns: []model.Col{{Name: "c_pool", Type: "bytea"}, {Name: "c_memo", Type: "text"}}, Index: [][]string{{"c_pool"}}}
	dep := &model.Decl{Name: "dep", Enabled: true, Sources: []model.SrcRef{{Name: "s0", Start: 3}}, FilterAgg: "or",
		Event: &model.Event{Name: "Swap", Type: "event", Inputs: []model.Input{
			{Name: "who", Type: "address", Indexed: true, Column: "c_who", Filter: &model.Filter{Op: "contains", Ref: &model.Ref{Integration: "ref0", Column: "c_pool"}}},
			{Name: "note", Type: "string", Column: "c_note"},
			{Name: "pair", Type: "tuple", Components: []model.Input{
				{Name: "x", Type: "address", Column: "c_x", Filter: &model.Filter{Op: "contains", Ref: &model.Ref{Integration: "ref0", Column: "c_pool"}}},
				{Name: "y", Type: "uint256", Column: "c_y", Filter: &model.Filter{Op: "gt", Arg: []string{"1"}}},
			}},
			// the same shape with the tuple type spelled in canonical form
			{Name: "pair2", Type: "(address,uint256)", Components: []model.Input{
				{Name: "x2", Type: "address", Column: "c_x2", Filter: &model.Filter{Op: "contains", Ref: &model.Ref{Integration: "ref0", Column: "c_pool"}}},
				{Name: "y2", Type: "uint256", Column: "c_y2"},
			}},
		}},
		Block: []model.Field{
			{Name: "log_addr", Column: "log_addr", Filter: &model.Filter{Op: "contains", Ref: &model.Ref{Integration: "ref0", Column: "c_pool"}}},
			{Name: "tx_hash", Column: "tx_hash"},
			{Name: "block_time", Column: "block_time"},
		},
		Notification: &model.Notification{Columns: []string{"c_note", "block_num"}}}
	dep.Table = model.Table{Name: "t_dep", Columns: []model.Col{{Name: "c_who", Type: "bytea"}, {Name: "c_note", Type: "text"}, {Name: "c_x", Type: "bytea"}, {Name: "c_y", Type: "numeric"}, {Name: "c_x2", Type: "bytea"}, {Name: "c_y2", Type: "numeric"}, {Name: "log_addr", Type: "bytea"}, {Name: "tx_hash", Type: "bytea"}, {Name: "block_time", Type: "numeric"}},
		Unique: [][]string{{"ig_name", "src_name", "block_num", "tx_idx", "log_idx", "abi_idx"}}, Index: [][]string{{"c_who"}, {"c_note", "c_x"}}}
	// a second integration writing the same table with a table definition of
	// its own: every string of a later definition of a shared table is a
	// position too
	dep2 := &model.Decl{Name: "dep2", Enabled: true, Sources: []model.SrcRef{{Name: "s0", Start: 3}},
		Event: &model.Event{Name: "Sync", Type: "event", Inputs: []model.Input{
			{Name: "who", Type: "address", Indexed: true, Column: "c_who2"},
			{Name: "note", Type: "string", Column: "c_note2"},
		}},
		// an automatically required field spelled out by the user: its
		// block[].column is a string position like any other
		Block: []model.Field{{Name: "block_num", Column: "block_num"}}}
	dep2.Table = model.Table{Name: "t_dep", Columns: []model.Col{{Name: "c_who2", Type: "bytea"}, {Name: "c_note2", Type: "text"}, {Name: "block_num", Type: "numeric"}},
		Unique: [][]string{{"ig_name", "src_name", "block_num", "tx_idx", "log_idx", "abi_idx"}}, Index: [][]string{{"c_who2"}, {"c_note2"}}}
	// a disabled integration: it runs no task, but its table is still
	// created at start-up, so its strings are positions too
	off := &model.Decl{Name: "off0", Enabled: false, Sources: []model.SrcRef{{Name: "s0", Start: 2}},
		Event: &model.Event{Name: "Paused", Type: "event", Inputs: []model.Input{
			{Name: "who", Type: "address", Indexed: true, Column: "c_offwho"},
			{Name: "memo", Type: "string", Column: "c_offmemo"},
		}},
		Notification: &model.Notification{Columns: []string{"c_offmemo"}}}
	off.Table = model.Table{Name: "t_off", Columns: []model.Col{{Name: "c_offwho", Type: "bytea"}, {Name: "c_offmemo", Type: "text"}},
		Unique: [][]string{{"ig_name", "src_name", "block_num", "tx_idx", "log_idx", "abi_idx"}}, Index: [][]string{{"c_offwho"}}}
	p.Decls = []*model.Decl{ref, dep, dep2, off}
	p.Content.Events = []EventSpec{{Event: ref.Event}, {Event: dep.Event}, {Event: dep2.Event}}
	p.Content.Seeded = []SeededLogs{{Event: ref.Event, AddrInput: 0, UpTo: 2}}
	p.ScriptChain = []ScriptedChain{{AtPos: 9, Pair: "s0/dep", Src: "s0", Action: "reorg", Depth: 2, NewLen: 3}}
	p.Faults.MaxReorgs, p.Faults.MaxReorgDepth = 1, 2
	p.Faults.HealAt = 0
	p.MaxSteps = 1200
	p.C20 = &C20Case{}
	return p
}

type c15Pos struct {
	path []any // keys / indices
	desc string
	orig string
}

func walkStrings(v any, path []any, out *[]c15Pos) {
	switch x := v.(type) {
	case map[string]any:
		var ks []string
		for k := range x {
			ks = append(ks, k)
		}
		sort.Strings(ks)
		for _, k := range ks {
			walkStrings(x[k], append(append([]any(nil), path...), k), out)
		}
	case []any:
		for i, e := range x {
			walkStrings(e, append(append([]any(nil), path...), i), out)
		}
	case string:
		var parts []string
		for _, p := range path {
			parts = append(parts, fmt.Sprint(p))
		}
		*out = append(*out, c15Pos{path: path, desc: strings.Join(parts, "."), orig: x})
	}
}

func setAt(v any, path []any, nv string) {
	cur := v
	for i, p := range path {
		last := i == len(path)-1
		switch k := p.(type) {
		case string:
			m := cur.(map[string]any)
			if last {
				m[k] = nv
				return
			}
			cur = m[k]
		case int:
			a := cur.([]any)
			if last {
				a[k] = nv
				return
			}
			cur = a[k]
		}
	}
}

var (
	c15Once  sync.Once
	c15Cases []*C15Case
)

func c15Init() {
	c15Once.Do(func() {
		base := c15BasePlan()
		w := &World{plan: base, srcs: map[string]*srcState{"s0": {plan: base.Sources[0]}}}
		cj, _ := base.ConfigJSON(w.urlsFor)
		var tree any
		json.Unmarshal(cj, &tree)
		var pos []c15Pos
		walkStrings(tree, nil, &pos)
		c15Cases = append(c15Cases, &C15Case{Path: "file", Where: "base(unmodified)", Config: cj})
		// also positions the base does not use but the code splices: filter_ref.table supplied by the user
		for _, ps := range pos {
			var t2 any
			json.Unmarshal(cj, &t2)
			setAt(t2, ps.path, c15Marker+ps.desc)
			b, _ := json.Marshal(t2)
			c15Cases = append(c15Cases, &C15Case{Path: "file", Where: ps.desc, Config: b, Original: ps.orig})
			// the original value kept as a prefix (a checker that only looks at
			// the first token, or at a parsed part, lets the rest through)
			vars := []string{ps.orig + " " + c15Marker, ps.orig + c15Marker, ps.orig + "é" + c15Marker, "é" + c15Marker,
				// one metacharacter, directly after a letter outside ASCII or after a digit
				ps.orig + "é'MRK", "表;MRK", ps.orig + "é MRK", ps.orig + "٣)MRK", ps.orig + "1'MRK", "é\"é;é é)MRK"}
			if strings.HasSuffix(ps.desc, ".type") && strings.Contains(ps.desc, ".table.columns.") {
				// a type written with a modifier, and more after it
				vars = append(vars, ps.orig+"(78,0)); "+c15Marker, "numeric(78,0)); drop table x; -- MRK", "varchar(66) MRK", ps.orig+"[] ; MRK", ps.orig+"(1)MRK")
			}
			if strings.Contains(ps.desc, ".table.index.") || strings.Contains(ps.desc, ".table.unique.") {
				vars = append(vars, ps.orig+" desc "+c15Marker, ps.orig+" asc) ; "+c15Marker)
			}
			for vi, v := range vars {
				if ps.orig == "" || strings.Contains(ps.desc, ".urls.") {
					// (a source URL that does not parse ends the process at
					// start-up: jrpc2.New exits; not a SQL matter)
					continue
				}
				var t3 any
				json.Unmarshal(cj, &t3)
				setAt(t3, ps.path, v)
				b3, _ := json.Marshal(t3)
				c15Cases = append(c15Cases, &C15Case{Path: "file", Where: fmt.Sprintf("%s(suffix %d)", ps.desc, vi), Config: b3, Original: ps.orig})
			}
		}
		extra := func(where string, mut func(root map[string]any)) {
			var t2 any
			json.Unmarshal(cj, &t2)
			mut(t2.(map[string]any))
			b, _ := json.Marshal(t2)
			c15Cases = append(c15Cases, &C15Case{Path: "file", Where: where, Config: b})
		}
		igAt := func(root map[string]any, i int) map[string]any {
			return root["integrations"].([]any)[i].(map[string]any)
		}
		extra("integrations.1.event.inputs.0.filter_ref.table(user-supplied)", func(r map[string]any) {
			in := igAt(r, 1)["event"].(map[string]any)["inputs"].([]any)[0].(map[string]any)
			in["filter_ref"].(map[string]any)["table"] = c15Marker + "reftable"
		})
		extra("integrations.1.event.inputs.2.components.0.filter_ref.table(user-supplied, nested)", func(r map[string]any) {
			in := igAt(r, 1)["event"].(map[string]any)["inputs"].([]any)[2].(map[string]any)["components"].([]any)[0].(map[string]any)
			in["filter_ref"].(map[string]any)["table"] = c15Marker + "nestedreftable"
		})
		extra("integrations.1.block.0.filter_ref.table(user-supplied)", func(r map[string]any) {
			bd := igAt(r, 1)["block"].([]any)[0].(map[string]any)
			bd["filter_ref"].(map[string]any)["table"] = c15Marker + "blockreftable"
		})
		extra("integrations.1.table.unique.0.extra", func(r map[string]any) {
			t := igAt(r, 1)["table"].(map[string]any)
			u := t["unique"].([]any)[0].([]any)
			t["unique"].([]any)[0] = append(u, c15Marker+"uniq")
		})
		// a list the configuration document can carry although nobody writes
		// it by hand: what an integration waits for
		extra("integrations.1.dependencies(user-supplied)", func(r map[string]any) {
			igAt(r, 1)["dependencies"] = []any{c15Marker + "dependency", "x'; drop table t; -- MRK"}
		})
		extra("integrations.1.table.index.extra", func(r map[string]any) {
			t := igAt(r, 1)["table"].(map[string]any)
			t["index"] = append(t["index"].([]any), []any{c15Marker + "idx"})
		})
		// a file with sources only (integrations come through the dashboard
		// later): the source name is spliced into SQL as soon as a submitted
		// integration refers to it
		for vi, hostile := range []string{c15Marker + "srcname", "s0 " + c15Marker, "s0'; drop table shovel.task_updates; -- MRK"} {
			var t2 any
			json.Unmarshal(cj, &t2)
			root := t2.(map[string]any)
			ig0 := root["integrations"].([]any)[0].(map[string]any)
			for _, s := range ig0["sources"].([]any) {
				s.(map[string]any)["name"] = hostile
			}
			for _, s := range root["eth_sources"].([]any) {
				s.(map[string]any)["name"] = hostile
			}
			root["integrations"] = []any{}
			b, _ := json.Marshal(root)
			sb, _ := json.Marshal(ig0)
			c15Cases = append(c15Cases, &C15Case{Path: "file", Where: fmt.Sprintf("eth_sources.0.name in a file without integrations + dashboard integration referring to it (%d)", vi), Config: b, Submit: sb})
		}
		// dashboard path: each string position of each integration, submitted as a new integration
		igs := tree.(map[string]any)["integrations"].([]any)
		for ii := range igs {
			var pos2 []c15Pos
			walkStrings(igs[ii], nil, &pos2)
			for _, ps := range pos2 {
				var t2 any
				json.Unmarshal(cj, &t2)
				ig := t2.(map[string]any)["integrations"].([]any)[ii].(map[string]any)
				ig["name"] = fmt.Sprintf("dash%d", ii)
				setAt(ig, ps.path, c15Marker+ps.desc)
				b, _ := json.Marshal(ig)
				c15Cases = append(c15Cases, &C15Case{Path: "dashboard", Where: fmt.Sprintf("integrations.%d.%s", ii, ps.desc), Submit: b, Original: ps.orig})
				if ps.orig != "" && (strings.Contains(ps.desc, "table.index.") || strings.Contains(ps.desc, "table.unique.") || strings.HasSuffix(ps.desc, ".name")) {
					for vi, v := range []string{ps.orig + " desc " + c15Marker, ps.orig + " " + c15Marker} {
						var t3 any
						json.Unmarshal(cj, &t3)
						ig3 := t3.(map[string]any)["integrations"].([]any)[ii].(map[string]any)
						ig3["name"] = fmt.Sprintf("dash%d", ii)
						setAt(ig3, ps.path, v)
						b3, _ := json.Marshal(ig3)
						c15Cases = append(c15Cases, &C15Case{Path: "dashboard", Where: fmt.Sprintf("integrations.%d.%s(suffix %d)", ii, ps.desc, vi), Submit: b3, Original: ps.orig})
					}
				}
			}
			for _, um := range []struct {
				where string
				mut   func(ig map[string]any)
			}{
				{"filter_ref.table(user-supplied)", func(ig map[string]any) {
					ev, _ := ig["event"].(map[string]any)
					if ev == nil {
						return
					}
					for _, in := range ev["inputs"].([]any) {
						if fr, ok := in.(map[string]any)["filter_ref"].(map[string]any); ok {
							fr["table"] = c15Marker + "dashreftable"
						}
					}
				}},
				{"table.unique.extra", func(ig map[string]any) {
					t := ig["table"].(map[string]any)
					t["unique"] = []any{[]any{"block_num", c15Marker + "dashuniq"}}
				}},
			} {
				var t2 any
				json.Unmarshal(cj, &t2)
				ig := t2.(map[string]any)["integrations"].([]any)[ii].(map[string]any)
				ig["name"] = fmt.Sprintf("dash%d", ii)
				um.mut(ig)
				b, _ := json.Marshal(ig)
				c15Cases = append(c15Cases, &C15Case{Path: "dashboard", Where: fmt.Sprintf("integrations.%d.%s", ii, um.where), Submit: b})
			}
			// a user-supplied table on each nested component's filter_ref, one at a time
			for k := 0; ; k++ {
				var t2 any
				json.Unmarshal(cj, &t2)
				ig := t2.(map[string]any)["integrations"].([]any)[ii].(map[string]any)
				ig["name"] = fmt.Sprintf("dash%d", ii)
				ev, _ := ig["event"].(map[string]any)
				if ev == nil {
					break
				}
				n, hit := 0, ""
				var walk func(ins []any, path string)
				walk = func(ins []any, path string) {
					for i, in := range ins {
						m := in.(map[string]any)
						cs, _ := m["components"].([]any)
						for j, c := range cs {
							if fr, ok := c.(map[string]any)["filter_ref"].(map[string]any); ok {
								if n == k {
									fr["table"] = c15Marker + "dashnestedreftable"
									hit = fmt.Sprintf("%s.%d.components.%d", path, i, j)
								}
								n++
							}
						}
						walk(cs, fmt.Sprintf("%s.%d.components", path, i))
					}
				}
				walk(ev["inputs"].([]any), "event.inputs")
				if hit == "" {
					break
				}
				b, _ := json.Marshal(ig)
				c15Cases = append(c15Cases, &C15Case{Path: "dashboard", Where: fmt.Sprintf("integrations.%d.%s.filter_ref.table(user-supplied)", ii, hit), Submit: b})
			}
		}
	})
}

func C15Indexed(t *testing.T, i int, seedBase uint64) (*Plan, bool) {
	c15Init()
	if i >= len(c15Cases) {
		return nil, false
	}
	p := c15BasePlan()
	p.C15 = c15Cases[i]
	p.Note = p.C15.Path + ":" + p.C15.Where
	p.Checks["enumerated"] = true
	return p, true
}

func RunC15(t *testing.T, plan *Plan, st *core.Stream, extra Extra, keepLog bool) *Result {
	cs := plan.C15
	var nSQLAtReject = -1
	extra = Extra{OnSQL: func(w *World, owner, kind, sql string) {
		if strings.Contains(sql, "MRK") {
			s := sql
			if len(s) > 300 {
				s = s[:300]
			}
			w.violate("marker-in-sql", "configuration value at %s (%s path) reached SQL text (%s by %s): %s", cs.Where, cs.Path, kind, owner, s)
		}
	}}
	if cs.Path == "file" {
		var conf config.Root
		rejected := ""
		if err := json.Unmarshal(cs.Config, &conf); err != nil {
			rejected = "decode: " + err.Error()
		} else if err := config.ValidateFix(&conf); err != nil {
			rejected = err.Error()
		}
		if rejected != "" {
			// rejected before any SQL could be issued (nothing has been connected yet)
			res := &Result{Prop: "C15", Seed: plan.Seed, Stats: map[string]int{"rejected": 1, "enum_case": 1}, PlanDigest: plan.Note,
				LogHash: fmt.Sprintf("rej-%s", cs.Where), StateHash: "rejected", NonTrivial: true}
			if keepLog {
				res.LogTail = []string{"rejected: " + rejected}
			}
			return res
		}
		plan.RawConfig = cs.Config
		if len(cs.Submit) > 0 {
			plan.C15Submit = cs.Submit
		}
	} else {
		plan.C15Submit = cs.Submit
	}
	_ = nSQLAtReject
	var sqlSeen = map[string]bool{}
	if cs.Where == "base(unmodified)" {
		inner := extra.OnSQL
		extra.OnSQL = func(w *World, owner, kind, sql string) {
			inner(w, owner, kind, sql)
			for _, k := range []string{"pg_notify", "select true from", "delete from t_dep", "delete from shovel.task_updates", "create unique index", "create index", "set application_name", "copy "} {
				if strings.Contains(strings.ToLower(sql), k) {
					sqlSeen[k] = true
				}
			}
		}
	}
	res := RunC20(t, plan, st, extra, keepLog)
	if cs.Where == "base(unmodified)" {
		// non-vacuity of the monitor: the unmodified configuration must drive every SQL-building phase
		for _, k := range []string{"pg_notify", "select true from", "delete from t_dep", "delete from shovel.task_updates", "create unique index", "create index", "set application_name", "copy "} {
			if !sqlSeen[k] && res.HarnessErr == "" {
				res.HarnessErr = fmt.Sprintf("C15 base run never issued a %q statement: the workload does not reach that SQL-building phase", k)
			}
		}
		if len(res.Violations) > 0 && res.HarnessErr == "" {
			res.HarnessErr = "C15 base run (no marker in the configuration) flagged a marker: chain data reached SQL text? " + res.Violations[0].Msg
		}
	}
	res.Prop = "C15"
	res.PlanDigest = plan.Note
	res.Stats["enum_case"] = 1
	res.Stats["accepted_and_run"] = 1
	// a statement that is unparseable because a marker was spliced into it is a violation, not a harness problem
	for _, v := range res.Violations {
		if v.Class == "marker-in-sql" {
			// whatever failed afterwards (syntax error at migration, ...) is a consequence
			res.HarnessErr = ""
		}
	}
	// an accepted variant may still be unusable (unknown type name, unknown
	// source, missing table ...): that is not this property's business
	if res.HarnessErr != "" && (strings.HasPrefix(res.HarnessErr, "setup: migrate") || strings.HasPrefix(res.HarnessErr, "setup: ValidateFix")) {
		res.Stats["accepted_but_unusable"] = 1
		res.HarnessErr = ""
	}
	var keep []Violation
	for _, v := range res.Violations {
		if v.Class == "marker-in-sql" || strings.HasPrefix(v.Class, "panic") {
			keep = append(keep, v)
		}
	}
	res.Violations = keep
	res.NonTrivial = true
	return res
}

// c15Dashboard submits the variant integration through the real handler.
func (w *World) c15Dashboard() {
	body := w.plan.C15Submit
	before := len(w.srv.SQLLog)
	rec := httptest.NewRecorder()
	req := httptest.NewRequest("POST", "/save-integration", bytes.NewReader(body))
	func() {
		defer func() {
			if r := recover(); r != nil {
				w.violate(panicClass(r), "SaveIntegration panicked: %v", r)
			}
		}()
		w.web.SaveIntegration(rec, req)
	}()
	if rec.Code != 200 {
		w.stat("dashboard_rejected", 1)
		w.sched.Log.Add("%d dashboard rejected: %s", w.step, strings.TrimSpace(rec.Body.String()))
		_ = before
	} else {
		w.stat("dashboard_accepted", 1)
	}
	w.c20RestartReturned(nil)
}

func init() {
	Indexed["C15"] = C15Indexed
	Runners["C15"] = RunC15
	EnumSize["C15"] = func(t *testing.T) int { c15Init(); return len(c15Cases) }
}
