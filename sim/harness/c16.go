package harness

import (
	"encoding/json"
	"fmt"
	"github.com/indexsupply/shovel/shovel"
	"strings"

	"verifsim/fakepg"
	"verifsim/model"

	"github.com/indexsupply/shovel/shovel/config"
)

func init() {
	Generators["C16"] = GenC16
	Extras["C16"] = func(p *Plan) Extra { return Extra{AtEnd: c16AtEnd} }
}

var c16Words = []string{"from", "to", "user", "order", "value", "amount", "limit", "select", "group", "table", "a1", "data", "when", "desc", "check", "owner", "index", "key", "end", "offset"}

// GenC16 — integration sets: log / tx / trace shapes, with and without
// arrays, sharing tables or not, columns in any order, identity columns
// user-supplied or missing, pre-existing tables with fewer columns; column
// names from [a-z0-9_] plus SQL reserved words.
func GenC16(seed uint64) *Plan {
	g := NewG(seed)
	p := g.basePlan("C16", seed)
	sp := &p.Sources[0]
	if sp.Batch < sp.Conc {
		sp.Batch, sp.Conc = sp.Conc, sp.Batch
	}
	sp.InitLen = g.between(8, 18)
	p.Content.TxMax, p.Content.LogMax, p.Content.EmptyPct = 3, 4, 0
	p.Content.MinTx = 1
	nd := g.between(1, 3)
	shared := nd > 1 && g.chance(35)
	used := map[string]bool{}
	word := func() string {
		for {
			w := g.pick(c16Words)
			if g.chance(30) {
				w = fmt.Sprintf("%s_%d", w, g.between(1, 9))
			}
			if !used[w] {
				used[w] = true
				return w
			}
		}
	}
	for i := 0; i < nd; i++ {
		mode := model.ModeLog
		switch r := g.R.IntN(100); {
		case r < 30:
			mode = model.ModeTx
		case r < 45:
			mode = model.ModeTrace
		}
		d := &model.Decl{Name: fmt.Sprintf("ig%d", i), Enabled: true, Sources: []model.SrcRef{{Name: sp.Name, Start: uint64(g.between(1, 4))}}}
		d.Table.Name = fmt.Sprintf("t_ig%d", i)
		if shared && (i == 0 || i == nd-1 || g.chance(50)) {
			// (the first and the last integration always share; one in between
			// may have a table of its own, so sharers need not be adjacent)
			d.Table.Name = "t_shared"
			used = map[string]bool{} // integrations sharing a table may reuse or not reuse column names
		}
		addCol := func(n, t string) {
			for _, c := range d.Table.Columns {
				if c.Name == n {
					return
				}
			}
			d.Table.Columns = append(d.Table.Columns, model.Col{Name: n, Type: t})
		}
		var fields []string
		switch mode {
		case model.ModeLog:
			ev := g.Event(g.pick(eventNames)+fmt.Sprint(i), EventOpts{MaxInputs: 4, AllowDynamic: true, AllowArray: g.chance(50), AllowTupleArray: g.chance(40), SafeIndexedSel: false})
			for k := range ev.Inputs {
				if ev.Inputs[k].Column != "" {
					ev.Inputs[k].Column = word()
					if shared {
						ev.Inputs[k].Column = fmt.Sprintf("i%d_%s", i, ev.Inputs[k].Column)
					}
				}
				// (components too: two sharers must not claim one column name
				// with different types)
				for c := range ev.Inputs[k].Components {
					if cc := &ev.Inputs[k].Components[c]; cc.Column != "" && shared {
						cc.Column = fmt.Sprintf("i%d_%s", i, cc.Column)
					}
				}
			}
			d.Event = ev
			for _, in := range d.SelectedInputs() {
				addCol(in.Column, ABIColType(in.Type))
			}
			fields = logSafeFields
			p.Content.Events = append(p.Content.Events, EventSpec{Event: ev})
		case model.ModeTx:
			fields = txSafeFields
		case model.ModeTrace:
			fields = traceSafeFields
			p.Content.MinTraces = 1
		}
		nf := g.between(0, 3)
		if mode != model.ModeLog && nf == 0 {
			nf = 1
		}
		// a field may be stored under any column name
		rename := g.chance(40)
		colFor := func(f string) string {
			if !rename || shared {
				return f
			}
			return "u_" + word()
		}
		for _, pi := range g.R.Perm(len(fields))[:nf] {
			f := fields[pi]
			col := colFor(f)
			d.Block = append(d.Block, model.Field{Name: f, Column: col})
			addCol(col, FieldType[f])
		}
		if mode == model.ModeTrace {
			has := false
			for _, f := range d.Block {
				if strings.HasPrefix(f.Name, "trace_") {
					has = true
				}
			}
			if !has {
				col := colFor("trace_action_to")
				d.Block = append(d.Block, model.Field{Name: "trace_action_to", Column: col})
				addCol(col, "bytea")
			}
		}
		// identity columns supplied by the user in some runs (with the documented types)
		idcs := []string{"block_num", "tx_idx", "ig_name", "src_name"}
		if mode == model.ModeLog {
			idcs = append(idcs, "log_idx", "abi_idx")
		}
		for _, idc := range idcs {
			// the column type as a user may spell it (other accepted spellings
			// of the same kind of column)
			spell := FieldType[idc]
			if g.chance(40) {
				switch idc {
				case "block_num":
					spell = g.pick([]string{"bigint", "int8", "numeric"})
				case "tx_idx":
					spell = g.pick([]string{"int4", "integer", "int8"})
				}
			}
			switch r := g.R.IntN(100); {
			case r < 25:
				d.Block = append(d.Block, model.Field{Name: idc, Column: idc})
				addCol(idc, spell)
			case r < 37:
				// only the column is declared; the field that writes it is
				// one of the automatically required ones (the element index is
				// one only when an input from the log's data is selected)
				if idc == "abi_idx" {
					needed := false
					for _, in := range d.SelectedInputs() {
						needed = needed || !in.Indexed
					}
					if !needed {
						break
					}
				}
				addCol(idc, spell)
			}
		}
		if g.chance(30) && len(d.Table.Columns) > 0 {
			var ncols []string
			for _, pi := range g.R.Perm(len(d.Table.Columns)) {
				if len(ncols) < g.between(1, 3) {
					ncols = append(ncols, d.Table.Columns[pi].Name)
				}
			}
			d.Notification = &model.Notification{Columns: ncols}
		}
		g.R.Shuffle(len(d.Table.Columns), func(a, b int) {
			d.Table.Columns[a], d.Table.Columns[b] = d.Table.Columns[b], d.Table.Columns[a]
		})
		p.Decls = append(p.Decls, d)
	}
	g.ensureEvents(p)
	// a pre-existing table with fewer columns (left over from an older configuration)
	if g.chance(35) {
		d := p.Decls[g.R.IntN(len(p.Decls))]
		if len(d.Table.Columns) > 1 {
			keep := d.Table.Columns[:1+g.R.IntN(len(d.Table.Columns)-1)]
			var defs []string
			if g.chance(30) {
				// ... or with every column already there (also the ones added
				// automatically) and nothing else: no index yet
				keep = d.Table.Columns
				have := map[string]bool{}
				for _, c := range keep {
					have[c.Name] = true
				}
				for _, idc := range []string{"ig_name", "src_name", "block_num", "tx_idx", "log_idx", "abi_idx", "trace_action_idx"} {
					if !have[idc] {
						defs = append(defs, fmt.Sprintf("%q %s", idc, FieldType[idc]))
					}
				}
			}
			for _, c := range keep {
				defs = append(defs, fmt.Sprintf("%q %s", c.Name, c.Type))
			}
			p.PreDDL = append(p.PreDDL, fmt.Sprintf("create table if not exists %s(%s)", d.Table.Name, strings.Join(defs, ", ")))
		}
	}
	p.Faults.HealAt = 0
	p.Checks["input_driven"] = true
	p.Checks["migrate_is_property"] = true
	p.MaxSteps = 4000
	return p
}

// c16AtEnd: (1) re-inserting any stored row must collide with the generated
// unique key; (2) validation rejects the declaration once a column that a
// selected input, a block field or a notification needs is removed.
func c16AtEnd(w *World) {
	snap := w.srv.DB.Snapshot()
	// (0) the printed table definitions (config.DDL, what -print-schema
	// emits) on an empty database give every table the columns the
	// migrations gave it (pre-existing tables may have more) and a unique key
	if w.plan.PreDDL == nil {
		s2 := fakepg.NewServer()
		err := s2.InstallSchema(shovel.Schema)
		for _, stmt := range config.DDL(w.conf) {
			if err == nil {
				err = s2.InstallSchema(stmt)
			}
		}
		if err != nil {
			w.violate("printed-schema-fails", "the printed table definitions do not load into an empty database: %v", err)
		} else {
			snap2 := s2.DB.Snapshot()
			seen := map[string]bool{}
			for _, d := range w.plan.Decls {
				full := "public." + d.Table.Name
				if seen[full] {
					continue
				}
				seen[full] = true
				t1, t2 := snap.Table(full), snap2.Table(full)
				if t1 == nil {
					continue
				}
				w.stat("probe_printed_schema_checked", 1)
				if t2 == nil {
					w.violate("printed-schema-lacks-column", "the printed table definitions do not create table %s", d.Table.Name)
					continue
				}
				for _, c := range t1.Cols {
					if t2.Col(c.Name) < 0 {
						w.violate("printed-schema-lacks-column", "the printed definition of table %s lacks column %q, which the migrations created (a table shared by several integrations gets the union of their columns)", d.Table.Name, c.Name)
					}
				}
				if len(w.srv.DB.UniqueIndexes(full)) > 0 && len(s2.DB.UniqueIndexes(full)) == 0 {
					w.violate("printed-schema-lacks-column", "the printed definition of table %s has no unique key", d.Table.Name)
				}
			}
		}
	}
	for _, ps := range w.pairs {
		ts, rows := w.dataRowsOf(snap, ps)
		if ts == nil {
			continue
		}
		full := "public." + ps.decl.Table.Name
		for _, r := range rows {
			w.stat("probe_reinsert_checked", 1)
			if coll, _ := w.srv.DB.WouldCollide(full, r.Vals); !coll {
				w.violate("reinsert-does-not-collide", "pair %s: inserting a stored row of block again would not violate any unique index of %s (unique indexes: %v; row: %s)",
					ps.key, ps.decl.Table.Name, w.srv.DB.UniqueIndexes(full), fakepg.FormatRow(ts.Cols, r, nil))
				break
			}
		}
	}
	// validation rejections (pure function of the configuration)
	cj, err := w.plan.ConfigJSON(w.urlsFor)
	if err != nil {
		return
	}
	for di, d := range w.plan.Decls {
		try := func(what string, mut func(ig *config.Integration) bool) {
			var conf config.Root
			if json.Unmarshal(cj, &conf) != nil {
				return
			}
			if !mut(&conf.Integrations[di]) {
				return
			}
			w.stat("probe_validation_rejection_checked", 1)
			if err := config.ValidateFix(&conf); err == nil {
				w.violate("validation-accepts-missing-column", "integration %s: validation accepted the configuration although %s", d.Name, what)
			}
		}
		dropCol := func(ig *config.Integration, name string) bool {
			for i, c := range ig.Table.Columns {
				if c.Name == name {
					ig.Table.Columns = append(ig.Table.Columns[:i:i], ig.Table.Columns[i+1:]...)
					return true
				}
			}
			return false
		}
		for _, in := range d.SelectedInputs() {
			col := in.Column
			try(fmt.Sprintf("the column %q of selected input %s was removed from the table", col, in.Name), func(ig *config.Integration) bool { return dropCol(ig, col) })
		}
		for _, f := range d.Block {
			col := f.Column
			if col == "ig_name" || col == "src_name" || col == "block_num" || col == "tx_idx" || col == "log_idx" || col == "abi_idx" || col == "trace_action_idx" {
				continue // required columns are added back automatically
			}
			try(fmt.Sprintf("the column %q of block field %s was removed from the table", col, f.Name), func(ig *config.Integration) bool { return dropCol(ig, col) })
		}
		if d.Notification != nil {
			for _, col := range d.Notification.Columns {
				col := col
				if col == "ig_name" || col == "src_name" || col == "block_num" || col == "tx_idx" || col == "log_idx" || col == "abi_idx" || col == "trace_action_idx" {
					continue
				}
				try(fmt.Sprintf("the notification column %q was removed from the table", col), func(ig *config.Integration) bool {
					if !dropCol(ig, col) {
						return false
					}
					// keep inputs/fields consistent: only the notification still refers to it
					for i := range ig.Event.Inputs {
						if ig.Event.Inputs[i].Column == col {
							ig.Event.Inputs[i].Column = ""
						}
					}
					var nb = ig.Block[:0:0]
					for _, b := range ig.Block {
						if b.Column != col {
							nb = append(nb, b)
						}
					}
					ig.Block = nb
					return true
				})
			}
		}
	}
}
