package harness

import (
	"context"
	"crypto/sha1"
	"encoding/base64"
	"encoding/hex"
	"fmt"
	"io"
	"net"
	"net/http"
	"sync"
)

// Websocket head subscriptions (source option ws_url). The client dials
// through the simulated transport; the answer to the upgrade request carries
// one end of an in-memory pipe as its body, the other end is served here:
// whatever the client writes (the eth_subscribe request) is read and dropped,
// and the announcements are pushed by a pump goroutine that parks at the "ws"
// seam before every message, so that the scheduler decides when (and whether,
// and which) head reaches the listener.

type wsConn struct {
	w    *World
	host string
	src  string
	gen  int
	srv  net.Conn
	kick chan struct{}
	done chan struct{}
	once sync.Once
	sent int
}

type wsDecision struct {
	close   bool
	payload []byte
}

func (c *wsConn) close() {
	c.once.Do(func() {
		close(c.done)
		c.srv.Close()
	})
}

func wsFrame(payload []byte) []byte {
	var h []byte
	switch n := len(payload); {
	case n < 126:
		h = []byte{0x81, byte(n)}
	default:
		h = []byte{0x81, 126, byte(n >> 8), byte(n)}
	}
	return append(h, payload...)
}

func (c *wsConn) pump() {
	defer c.close()
	// the answer to eth_subscribe comes first, as real nodes send it
	if _, err := c.srv.Write(wsFrame([]byte(`{"jsonrpc":"2.0","id":"1","result":"0x51"}`))); err != nil {
		return
	}
	ctx, cancel := context.WithCancel(context.Background())
	defer cancel()
	go func() {
		select {
		case <-c.done:
			cancel()
		case <-ctx.Done():
		}
	}()
	for {
		select {
		case <-c.kick:
		case <-c.done:
			return
		}
		v, err := c.w.sched.Park(ctx, "ws", "ws "+c.host+" newHeads", c)
		if err != nil {
			return
		}
		d, ok := v.(wsDecision)
		if !ok || d.close {
			return
		}
		if d.payload == nil {
			continue
		}
		if _, err := c.srv.Write(wsFrame(d.payload)); err != nil {
			return
		}
	}
}

// wsUpgrade answers an accepted upgrade request.
func (w *World) wsUpgrade(req *http.Request, host string) (*http.Response, error) {
	src, gen, _, _ := parseHost(host)
	cli, srv := net.Pipe()
	c := &wsConn{w: w, host: host, src: src, gen: gen, srv: srv, kick: make(chan struct{}, 1), done: make(chan struct{})}
	w.mu.Lock()
	w.wsConns = append(w.wsConns, c)
	w.mu.Unlock()
	w.stat("ws_connections", 1)
	go func() {
		io.Copy(io.Discard, srv)
		c.close()
	}()
	go c.pump()
	c.kick <- struct{}{} // the current head is the first announcement
	sum := sha1.Sum([]byte(req.Header.Get("Sec-WebSocket-Key") + "258EAFA5-E914-47DA-95CA-C5AB0DC85B11"))
	return &http.Response{
		Status:     "101 Switching Protocols",
		StatusCode: http.StatusSwitchingProtocols,
		Proto:      "HTTP/1.1",
		ProtoMajor: 1,
		ProtoMinor: 1,
		Header: http.Header{
			"Upgrade":              []string{"websocket"},
			"Connection":           []string{"Upgrade"},
			"Sec-Websocket-Accept": []string{base64.StdEncoding.EncodeToString(sum[:])},
		},
		Body:    cli,
		Request: req,
	}, nil
}

// wsKick tells every live subscription of src that the chain has changed.
func (w *World) wsKick(src string) {
	w.mu.Lock()
	conns := append([]*wsConn(nil), w.wsConns...)
	w.mu.Unlock()
	for _, c := range conns {
		if c.src != src {
			continue
		}
		select {
		case <-c.done:
		case c.kick <- struct{}{}:
		default:
		}
	}
}

// wsCloseAll ends the subscriptions of generations up to gen (all: gen < 0).
func (w *World) wsCloseAll(gen int) {
	w.mu.Lock()
	conns := append([]*wsConn(nil), w.wsConns...)
	w.mu.Unlock()
	for _, c := range conns {
		if gen < 0 || c.gen <= gen {
			c.close()
		}
	}
}

// decideWS draws what the subscription delivers next: the current head, an
// older block of the chain once more (repeat / regression), nothing, or the
// end of the connection.
func (w *World) decideWS(c *wsConn) wsDecision {
	n := w.srcs[c.src].node
	head := n.Head()
	if c.gen != w.gen || head == nil {
		return wsDecision{close: true}
	}
	b := head
	if w.faultsOn() {
		switch r := w.st.Draw(20, "ws-what"); {
		case r == 0:
			w.stat("fault_ws_closed", 1)
			w.stat("fault_total", 1)
			w.logf("ws %s closed by the node", c.host)
			return wsDecision{close: true}
		case r == 1:
			w.stat("fault_ws_dropped_announcement", 1)
			w.stat("fault_total", 1)
			return wsDecision{}
		case r <= 4:
			// a block announced again, or one below the head
			back := 1 + w.st.Draw(3, "ws-back")
			if int(head.Num) >= back {
				b = n.Canonical(head.Num - uint64(back))
				w.stat("fault_ws_regression", 1)
				w.stat("fault_total", 1)
			}
		}
	}
	n.Announce(b)
	if st := w.c08; st != nil {
		// an announcement is the source speaking: the run of cache-served
		// reads ends here (the cache may ignore a repeat; the bound only
		// gets looser by that)
		st.mu.Lock()
		st.headHits = 0
		st.mu.Unlock()
	}
	c.sent++
	w.stat("ws_announcements", 1)
	w.logf("ws %s announces %d %x", c.host, b.Num, b.Hash[:4])
	p := fmt.Sprintf(`{"jsonrpc":"2.0","method":"eth_subscription","params":{"subscription":"0x51","result":{"number":"0x%x","hash":"0x%s","parentHash":"0x%s"}}}`,
		b.Num, hex.EncodeToString(b.Hash), hex.EncodeToString(b.Parent))
	return wsDecision{payload: []byte(p)}
}
