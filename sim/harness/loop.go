package harness

import (
	"encoding/json"
	"errors"
	"fmt"
	"os"
	"runtime"
	"strconv"
	"strings"
	"testing/synctest"
	"time"

	"verifsim/core"
	"verifsim/fakepg"
	"verifsim/node"
)

// HTTP fault kinds (bit positions in FaultPlan.HTTPKinds).
const (
	hfNone = iota
	hfConnErr
	hfStatus
	hfTruncated
	hfNonJSON
	hfRPCError
	hfNullResult
	hfStall
	hfN
)

var hfNames = []string{"none", "conn_err", "bad_status", "truncated", "non_json", "rpc_error", "null_result", "stall"}

var pgCodes = []string{"57P01", "53300", "40001", "08006", "57014"}

func (w *World) faultsOn() bool { return !w.healed }

func (w *World) logf(format string, a ...any) {
	w.sched.Log.Add("%d "+format, append([]any{w.step}, a...)...)
}

// loop is the strict scheduler: wait for quiescence, pick one action from the
// decision stream, deliver exactly one event, repeat.
func (w *World) loop() {
	f := w.plan.Faults
	maxSteps := w.plan.MaxSteps
	if maxSteps <= 0 {
		maxSteps = 3000
	}
	idle := 0
	for w.step = 1; w.step <= maxSteps; w.step++ {
		if w.harnessErr != "" {
			return
		}
		if w.sched.Broken != "" {
			w.harnessFail("scheduler: %s", w.sched.Broken)
			return
		}
		if !w.healed && w.step > f.HealAt {
			w.healed = true
			w.logf("heal")
			w.onHeal()
		}
		// 1. action kind
		act := 0
		if w.faultsOn() {
			wts := []int{1000, 0, 0, 0, 0}
			if w.grown < f.MaxGrow {
				wts[1] = f.GrowPerMille
			}
			if w.reorgs < f.MaxReorgs && f.MaxReorgDepth > 0 {
				wts[2] = f.ReorgPerMille
			}
			wts[3] = f.CrashPerMille
			wts[4] = f.JumpPerMille
			act = w.st.Weighted(wts, "action")
		}
		switch act {
		case 1:
			k := 1 + w.st.Draw(3, "grow-n")
			si := w.st.Draw(len(w.plan.Sources), "grow-src")
			w.chainGrow(w.plan.Sources[si].Name, k)
			continue
		case 2:
			si := w.st.Draw(len(w.plan.Sources), "reorg-src")
			d := 1 + w.st.Draw(f.MaxReorgDepth, "reorg-depth")
			nl := d - 1 + w.st.Draw(3, "reorg-newlen") // shorter / equal / longer
			w.chainReorg(w.plan.Sources[si].Name, d, nl)
			continue
		case 3:
			w.crashRestart()
			continue
		case 4:
			d := []time.Duration{time.Second, 11 * time.Second, 61 * time.Second}[w.st.Draw(3, "jump")]
			w.logf("jump %v", d)
			w.stat("time_jump", 1)
			time.Sleep(d)
			continue
		}
		// 2. advance the clock (simulated latency), then look at what is pending
		lat := []time.Duration{0, time.Millisecond, 7 * time.Millisecond, 120 * time.Millisecond}[w.st.Draw(4, "latency")]
		w.clock.AdvanceTo(w.step, lat)
		synctest.Wait()
		w.processCommits()
		pend := w.sched.Collect()
		if len(pend) == 0 {
			// everything is blocked on timers (or finished)
			w.mu.Lock()
			live := w.actorsLive
			w.mu.Unlock()
			if live == 0 {
				return
			}
			idle++
			if idle > 50 {
				w.harnessFail("scheduler: nothing pending for 50 idle rounds with %d live actors", live)
				if os.Getenv("VERIF_DEBUG") != "" {
					buf := make([]byte, 1<<20)
					os.Stderr.Write(buf[:runtime.Stack(buf, true)])
				}
				return
			}
			select {
			case <-w.sched.Wake():
			case <-time.After(30 * time.Second):
			}
			w.step--
			continue
		}
		idle = 0
		if w.quiescent() {
			w.logf("quiescent")
			return
		}
		if w.pendingJump > 0 {
			d := w.pendingJump
			w.pendingJump = 0
			w.logf("jump %v (scripted stall)", d)
			time.Sleep(d)
			continue
		}
		if w.plan.Burst {
			w.deliverBurst(pend)
			synctest.Wait()
			w.processCommits()
			continue
		}
		idx := w.st.Draw(len(pend), "pick")
		p := pend[idx]
		if w.sched.Log.Keep {
			var ks []string
			for _, q := range pend {
				ks = append(ks, q.Key)
			}
			w.logf("pick %d of %d @%v: %s", idx, len(pend), w.clock.Elapsed(), strings.Join(ks, " || "))
		}
		w.deliver(p)
		synctest.Wait()
		w.processCommits()
	}
}

func (w *World) deliver(p *core.Pending) {
	switch p.Kind {
	case "step":
		ar, ok := p.Data.(actorRef)
		if !ok {
			w.logf("%s", p.Key)
			w.sched.Release(p, nil)
			return
		}
		if ar.gen != w.gen {
			w.sched.Release(p, stopSignal{})
			return
		}
		w.mu.Lock()
		ar.p.inCall = true
		ar.p.callStart = w.step
		ar.p.callStartSeq = w.commitSeq
		ar.p.curAtCallStart = ar.p.curNum
		w.mu.Unlock()
		w.logf("step %s", ar.p.key)
		w.sched.Release(p, nil)
	case "lock":
		w.logf("%s", p.Key)
		w.sched.Release(p, nil)
	case "pg":
		ev := p.Data.(*fakepg.Event)
		w.stMu.Lock()
		d := w.decidePG(ev)
		w.stMu.Unlock()
		w.logf("%s -> %d%s", p.Key, d.v, d.code)
		w.sched.Release(p, d)
		if d.crash != 0 {
			// process death right before / right after the server executed
			// this group: the statement was (not) executed, then every
			// connection drops and all in-memory state is lost
			synctest.Wait()
			w.crashRestart()
		}
	case "http":
		ev := p.Data.(*httpEvent)
		res := w.serveHTTP(ev)
		if res.err == errStall {
			w.sched.Abandon(p)
			return
		}
		w.sched.Release(p, res)
	case "ws":
		w.sched.Release(p, w.decideWS(p.Data.(*wsConn)))
	case "prune":
		if p.Data.(pruneRef).gen != w.gen {
			w.sched.Release(p, stopSignal{})
			return
		}
		w.logf("%s", p.Key)
		w.sched.Release(p, nil)
	default:
		w.harnessFail("unknown pending kind %q", p.Kind)
		w.sched.Release(p, stopSignal{})
	}
}

// deliverBurst releases a drawn set of pending events together. Every
// decision (membership, answers, faults) is drawn before the first goroutine
// is resumed, so the decision vector is independent of how the released trees
// interleave; synctest.Wait before and after is a happens-before barrier for
// the race detector, so exactly the code the released trees run until they
// park again is mutually unordered (apart from shovel's own synchronisation).
func (w *World) deliverBurst(pend []*core.Pending) {
	var chosen []*core.Pending
	for _, p := range pend {
		if w.st.Draw(2, "burst-member") == 1 {
			chosen = append(chosen, p)
		}
	}
	if len(chosen) == 0 {
		chosen = append(chosen, pend[w.st.Draw(len(pend), "pick")])
	}
	type rel struct {
		p *core.Pending
		v any
	}
	var rels []rel
	for _, p := range chosen {
		if !w.sched.Take(p) {
			continue // a lock request disabled by an earlier grant of this burst
		}
		switch p.Kind {
		case "step":
			ar, ok := p.Data.(actorRef)
			if !ok {
				rels = append(rels, rel{p, nil})
				continue
			}
			if ar.gen != w.gen {
				rels = append(rels, rel{p, stopSignal{}})
				continue
			}
			w.mu.Lock()
			ar.p.inCall = true
			ar.p.callStart = w.step
			ar.p.callStartSeq = w.commitSeq
			ar.p.curAtCallStart = ar.p.curNum
			w.mu.Unlock()
			w.logf("step %s", ar.p.key)
			rels = append(rels, rel{p, nil})
		case "lock":
			w.logf("%s", p.Key)
			rels = append(rels, rel{p, nil})
		case "pg":
			ev := p.Data.(*fakepg.Event)
			w.stMu.Lock()
			d := w.decidePG(ev)
			w.stMu.Unlock()
			d.crash = 0
			w.logf("%s -> %d%s", p.Key, d.v, d.code)
			rels = append(rels, rel{p, d})
		case "http":
			ev := p.Data.(*httpEvent)
			res := w.serveHTTP(ev)
			if res.err == errStall {
				continue // taken and never answered: the client's timeout fires
			}
			rels = append(rels, rel{p, res})
		case "ws":
			rels = append(rels, rel{p, w.decideWS(p.Data.(*wsConn))})
		case "prune":
			if p.Data.(pruneRef).gen != w.gen {
				rels = append(rels, rel{p, stopSignal{}})
			} else {
				w.logf("%s", p.Key)
				rels = append(rels, rel{p, nil})
			}
		default:
			w.harnessFail("unknown pending kind %q", p.Kind)
			rels = append(rels, rel{p, stopSignal{}})
		}
	}
	w.stat("burst_windows", 1)
	if len(rels) > 1 {
		w.stat("burst_windows_concurrent", 1)
		w.stat("burst_events_concurrent", len(rels))
	}
	for _, r := range rels {
		w.sched.Send(r.p, r.v)
	}
}

func pgClassShort(c string) string {
	switch {
	case strings.HasPrefix(c, "begin"):
		return "begin"
	case strings.HasPrefix(c, "commit"):
		return "commit"
	case strings.HasPrefix(c, "rollback"):
		return "rollback"
	case strings.HasPrefix(c, "copydone"):
		return "copy-data"
	case strings.HasPrefix(c, "copy"):
		return "copy"
	case strings.Contains(c, "with latest as"):
		return "dep-select"
	case strings.Contains(c, "insert into shovel.task_updates"):
		return "cursor-insert"
	case strings.Contains(c, "delete from shovel.task_updates"):
		return "cursor-delete"
	case strings.Contains(c, "from shovel.task_updates"):
		return "cursor-select"
	case strings.Contains(c, "delete from"):
		return "table-delete"
	case strings.Contains(c, "select true from"):
		return "ref-lookup"
	case strings.Contains(c, "pg_notify"):
		return "notify"
	case strings.Contains(c, "-- ping"):
		return "ping"
	case strings.Contains(c, "select "):
		return "copy-prepare"
	}
	return "other"
}

// markLostAck notes that the acknowledgement of the group ev was lost. With
// per-task pools the owner names the pair; with the shared pool the pair is
// not known from the connection, so every call in flight is marked (exactly
// one of them sent the group).
func (w *World) markLostAck(owner string) {
	if ps := w.pairByOwner(owner); ps != nil {
		ps.callLostAck = true
		return
	}
	for _, ps := range w.pairs {
		if ps.inCall {
			ps.callLostAck = true
		}
	}
}

func (w *World) pairByOwner(owner string) *pairState {
	k := ownerPairKey(owner)
	for _, ps := range w.pairs {
		if ps.key == k {
			return ps
		}
	}
	return nil
}

func (w *World) serveHTTP(ev *httpEvent) httpResult {
	f := w.plan.Faults
	if st := w.c20; st != nil {
		st.mu.Lock()
		st.hostsUsed[ev.host] = true
		st.mu.Unlock()
	}
	src, gen, _, ok := parseHost(ev.host)
	if !ok || gen != w.gen || w.srcs[src] == nil {
		w.logf("http %s retired", ev.host)
		return httpResult{err: fmt.Errorf("dial tcp %s: connection refused", ev.host)}
	}
	n := w.srcs[src].node
	if ev.ws {
		if w.faultsOn() && f.HTTPPerMille > 0 && w.st.Chance(f.HTTPPerMille, 1000, "ws-dial-fault") {
			w.stat("fault_ws_dial_refused", 1)
			w.stat("fault_total", 1)
			w.logf("http %s ws-dial -> refused", ev.host)
			if w.st.Draw(2, "ws-dial-how") == 0 {
				return httpResult{err: fmt.Errorf("dial tcp %s: connection refused", ev.host)}
			}
			return httpResult{status: 503}
		}
		w.logf("http %s ws-dial -> 101", ev.host)
		return httpResult{status: 101}
	}
	kind := hfNone
	hk := w.httpSeen
	w.httpSeen++
	w.httpSizes = append(w.httpSizes, len(ev.reqs))
	sf := w.scripted("http", hk)
	if sf != nil {
		for k2, nm := range hfNames {
			if nm == sf.Kind {
				kind = k2
			}
		}
	} else if w.faultsOn() && w.st.Chance(f.HTTPPerMille, 1000, "http-fault") {
		var enabled []int
		for k := 1; k < hfN; k++ {
			if f.HTTPKinds&(1<<k) != 0 {
				if k == hfStall && !f.Stall {
					continue
				}
				enabled = append(enabled, k)
			}
		}
		if len(enabled) > 0 {
			kind = enabled[w.st.Draw(len(enabled), "http-kind")]
		}
	}
	summary := node.Summary(ev.reqs)
	if kind != hfNone {
		w.stat("fault_total", 1)
		w.stat("fault_http_"+hfNames[kind], 1)
	}
	w.logf("http %s %s -> %s", ev.host, summary, hfNames[kind])
	w.c08Observe(ev, kind, !ev.batch && len(ev.reqs) == 1 && string(ev.reqs[0].ID) == `"1"`)
	switch kind {
	case hfConnErr:
		return httpResult{err: errors.New("read tcp: connection reset by peer")}
	case hfStatus:
		codes := []int{500, 502, 429, 404}
		c := codes[w.st.Draw(len(codes), "http-status")]
		if sf != nil {
			c = codes[sf.Elem%len(codes)]
		}
		body := []byte("upstream error \x00\x01 <html>")
		return httpResult{status: c, body: body}
	case hfStall:
		// never answered: the client's own timeout will fire as simulated time passes
		w.stat("probe_http_stall", 1)
		if sf != nil {
			w.pendingJump = 11 * time.Second
		}
		return httpResult{err: errStall}
	}
	var between func(i int)
	if w.faultsOn() && ev.batch && len(ev.reqs) > 1 && f.MidBatchPM > 0 && w.st.Chance(f.MidBatchPM, 1000, "midbatch") {
		at := 1 + w.st.Draw(len(ev.reqs)-1, "midbatch-at")
		between = func(i int) {
			if i != at {
				return
			}
			w.stat("probe_chain_event_mid_batch", 1)
			if w.reorgs < f.MaxReorgs && f.MaxReorgDepth > 0 && w.st.Draw(2, "midbatch-kind") == 1 {
				d := 1 + w.st.Draw(f.MaxReorgDepth, "reorg-depth")
				w.chainReorg(src, d, d-1+w.st.Draw(3, "reorg-newlen"))
			} else if w.grown < f.MaxGrow {
				w.chainGrow(src, 1)
			}
		}
	}
	n.Now = w.step
	n.ViewLag = 0
	if _, _, replica, _ := parseHost(ev.host); replica > 0 && w.faultsOn() && w.srcs[src].plan.LagMax > 0 {
		// a lagging replica: the whole request is answered from a view that
		// ends a few blocks below the head
		n.ViewLag = w.st.Draw(w.srcs[src].plan.LagMax+1, "replica-lag")
		if n.ViewLag > 0 {
			w.stat("fault_replica_lag", 1)
			w.stat("fault_total", 1)
		}
	}
	replies := n.Serve(ev.host, ev.reqs, between)
	n.ViewLag = 0
	switch kind {
	case hfRPCError:
		i := w.st.Draw(len(replies), "rpc-error-at")
		if sf != nil {
			i = sf.Elem % len(replies)
		}
		replies[i].Result = nil
		replies[i].Error = &node.RPCError{Code: -32000, Message: "simulated upstream failure"}
	case hfNullResult:
		i := w.st.Draw(len(replies), "null-at")
		if sf != nil {
			i = sf.Elem % len(replies)
		}
		replies[i].Result = json.RawMessage("null")
		replies[i].Error = nil
	}
	var body []byte
	if ev.batch {
		body, _ = json.Marshal(replies)
	} else {
		body, _ = json.Marshal(replies[0])
	}
	switch kind {
	case hfTruncated:
		cut := w.st.Draw(len(body), "truncate-at")
		if sf != nil {
			cut = (sf.Elem * 37) % len(body)
		}
		body = body[:cut]
	case hfNonJSON:
		body = []byte("<html><body>502 Bad Gateway</body></html>")
	}
	return httpResult{status: 200, body: body}
}

var errStall = errors.New("stall")

func (w *World) chainGrow(src string, k int) {
	n := w.srcs[src].node
	n.Grow(k)
	w.grown += k
	w.stat("chain_events", 1)
	w.stat("chain_grow_blocks", k)
	w.logf("grow %s +%d head=%d", src, k, n.HeadNum())
	w.wsKick(src)
}

func (w *World) chainReorg(src string, depth, newLen int) {
	n := w.srcs[src].node
	if newLen < 1 {
		newLen = 1
	}
	before := n.HeadNum()
	if uint64(depth) >= before {
		return
	}
	n.Reorg(depth, newLen)
	w.reorgs++
	w.stat("chain_events", 1)
	w.stat("chain_reorgs", 1)
	for _, ps := range w.pairs {
		if ps.src.node == n && ps.inCall {
			w.stat("probe_reorg_during_step", 1)
		}
		if ps.src.node == n && ps.curNum >= int64(before)-int64(depth)+1 {
			w.stat("probe_reorg_of_indexed_block", 1)
		}
	}
	w.logf("reorg %s depth=%d newlen=%d head=%d", src, depth, newLen, n.HeadNum())
	w.wsKick(src)
}

// crashRestart models process death: every connection and request of the
// current generation fails, in-memory state is dropped, only committed
// database state survives; then a fresh generation is started.
func (w *World) crashRestart() {
	w.logf("crash gen=%d", w.gen)
	w.stat("fault_crash", 1)
	w.stat("fault_total", 1)
	for _, o := range w.srv.OpenTx() {
		if strings.HasPrefix(o, "t:") || strings.HasPrefix(o, "shared") {
			w.stat("probe_crash_with_open_tx", 1)
			break
		}
	}
	for _, ps := range w.pairs {
		if ps.inCall {
			w.stat("probe_crash_mid_step", 1)
			break
		}
	}
	old := w.gen
	w.gen++
	w.wsCloseAll(old)
	oldPools := w.pools
	w.pools = nil
	// drain: fail every parked seam event of the dead generation
	for i := 0; i < 500; i++ {
		synctest.Wait()
		pend := w.sched.All()
		progressed := false
		for _, p := range pend {
			switch p.Kind {
			case "step":
				if p.Data.(actorRef).gen <= old {
					w.sched.Release(p, stopSignal{})
					progressed = true
				}
			case "http":
				w.sched.Release(p, httpResult{err: errors.New("connection reset (process died)")})
				progressed = true
			case "pg":
				w.sched.Release(p, pgDecision{v: fakepg.DropBefore})
				progressed = true
			case "ws":
				w.sched.Release(p, wsDecision{close: true})
				progressed = true
			case "prune":
				w.sched.Release(p, stopSignal{})
				progressed = true
			case "lock":
				// grant in canonical order, one at a time
			}
		}
		if !progressed {
			// grant one enabled lock request, if any
			en := w.sched.Collect()
			granted := false
			for _, p := range en {
				if p.Kind == "lock" {
					w.sched.Release(p, nil)
					granted = true
					break
				}
			}
			if !granted {
				break
			}
		}
	}
	for _, ps := range w.pairs {
		w.srv.CloseOwner(ps.owner)
		ps.inCall = false
	}
	w.srv.CloseOwner(fmt.Sprintf("shared#g%d", old))
	w.srv.CloseOwner(fmt.Sprintf("prune#g%d", old))
	for _, p := range oldPools {
		go p.Close()
	}
	synctest.Wait()
	w.processCommits()
	if w.plan.Faults.Reconfig {
		for _, sp := range w.plan.Sources {
			ss := w.srcs[sp.Name]
			if w.st.Draw(2, "reconfig") == 1 {
				ss.batch = 1 + w.st.Draw(12, "reconfig-batch")
				ss.conc = 1 + w.st.Draw(6, "reconfig-conc")
				w.stat("probe_restart_with_other_batch", 1)
				w.logf("reconfig %s batch=%d conc=%d", sp.Name, ss.batch, ss.conc)
			}
		}
	}
	if err := w.startGeneration(); err != nil {
		w.harnessFail("restart: %v", err)
	}
}

// decidePG draws the verdict for one PG seam event.
func (w *World) decidePG(ev *fakepg.Event) pgDecision {
	f := w.plan.Faults
	d := pgDecision{v: fakepg.Exec}
	if ownerGen(ev.Owner) >= 0 && ownerGen(ev.Owner) != w.gen {
		d.v = fakepg.DropBefore
		return d
	}
	k := w.pgSeen
	w.pgSeen++
	cls := pgClassShort(ev.Class)
	w.pgClasses = append(w.pgClasses, cls)
	if w.pgClassSeen == nil {
		w.pgClassSeen = map[string]int{}
	}
	nth := w.pgClassSeen[cls]
	w.pgClassSeen[cls]++
	sf := w.scripted("pg", k)
	if sf == nil {
		for i := range w.plan.Script {
			if c := &w.plan.Script[i]; c.Seam == "pg" && c.Ordinal < 0 && c.Class == cls && c.Nth == nth {
				sf = c
			}
		}
	}
	if sf != nil {
		w.stat("fault_total", 1)
		w.stat("fault_scripted_pg_"+sf.Kind, 1)
		w.stat("fault_pg_at:"+pgClassShort(ev.Class), 1)
		switch sf.Kind {
		case "error":
			d.v, d.code = fakepg.ErrReply, "57P01"
		case "drop-before":
			d.v = fakepg.DropBefore
		case "drop-after":
			d.v = fakepg.DropAfter
			if strings.Contains(ev.Class, "commit") {
				w.stat("probe_lost_commit_ack", 1)
				w.markLostAck(ev.Owner)
			}
		case "crash-before":
			d.crash = 1
			d.v = fakepg.DropBefore
		case "crash-after":
			d.crash = 2
			d.v = fakepg.DropAfter
			w.markLostAck(ev.Owner)
		}
		return d
	}
	if w.faultsOn() && w.st.Chance(f.PGPerMille, 1000, "pg-fault") {
		kinds := 2
		if f.LostAck {
			kinds = 3
		}
		switch w.st.Draw(kinds, "pg-kind") {
		case 0:
			d.v = fakepg.ErrReply
			d.code = pgCodes[w.st.Draw(len(pgCodes), "pg-code")]
			w.stat("fault_pg_error", 1)
		case 1:
			d.v = fakepg.DropBefore
			w.stat("fault_pg_drop_before", 1)
		case 2:
			d.v = fakepg.DropAfter
			w.stat("fault_pg_drop_after", 1)
			if strings.Contains(ev.Class, "commit") {
				w.stat("probe_lost_commit_ack", 1)
				w.markLostAck(ev.Owner)
			}
		}
		w.stat("fault_total", 1)
		w.stat("fault_pg_at:"+pgClassShort(ev.Class), 1)
	}
	return d
}

func (w *World) scripted(seam string, ordinal int) *ScriptedFault {
	for i := range w.plan.Script {
		sf := &w.plan.Script[i]
		if sf.Seam == seam && sf.Ordinal == ordinal {
			return sf
		}
	}
	return nil
}

// applyScriptChain fires scripted chain events whose position was reached.
func (w *World) applyScriptChain() {
	for i, sc := range w.plan.ScriptChain {
		if w.scriptFired[i] {
			continue
		}
		reached := false
		for _, ps := range w.pairs {
			if ps.src.plan.Name == sc.Src && ps.maxEverNum >= sc.AtPos && (sc.Pair == "" || sc.Pair == ps.key) {
				reached = true
			}
		}
		if !reached {
			continue
		}
		w.scriptFired[i] = true
		switch sc.Action {
		case "grow":
			w.chainGrow(sc.Src, sc.N)
		case "reorg":
			w.chainReorg(sc.Src, sc.Depth, sc.NewLen)
		}
	}
}

func parseHexU(s string) (uint64, error) {
	return strconv.ParseUint(strings.TrimPrefix(s, "0x"), 16, 64)
}

func jsonUnmarshal(b []byte, v any) error { return json.Unmarshal(b, v) }
