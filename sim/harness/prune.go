package harness

import (
	"context"
	"fmt"
	"sort"
	"time"

	"github.com/indexsupply/shovel/shovel"

	"verifsim/fakepg"
)

// The binary prunes old position rows in the background (shovel.PruneTask,
// every ten minutes, keeping the newest 200 rows of every pair). The pruner
// actor calls the same function with the plan's count and period, on a
// connection of its own, interleaved with everything else by the scheduler.

type pruneRef struct{ gen int }

func (w *World) startPruner() {
	pp := w.plan.Prune
	if pp == nil || w.noActors {
		return
	}
	gen := w.gen
	owner := fmt.Sprintf("prune#g%d", gen)
	pool, err := w.newPool(owner, 1)
	if err != nil {
		w.harnessFail("pruner pool: %v", err)
		return
	}
	go func() {
		for {
			time.Sleep(time.Duration(pp.EveryMs) * time.Millisecond)
			if gen != w.gen || w.dead.Load() {
				return
			}
			v, _ := w.sched.Park(nil, "prune", "prune "+owner, pruneRef{gen})
			if _, stop := v.(stopSignal); stop {
				return
			}
			if err := shovel.PruneTask(context.Background(), pool, pp.Keep); err != nil {
				w.stat("prune_error", 1)
			} else {
				w.stat("prune_ok", 1)
			}
		}
	}()
}

// checkPrune: a pruning transaction removes position rows only, never one of
// the newest Keep rows of any pair, and never touches another table.
func (w *World) checkPrune(ci *fakepg.CommitInfo) {
	keep := w.plan.Prune.Keep
	for full, rows := range ci.Inserted {
		if len(rows) > 0 {
			w.violate("prune-wrote-rows", "the pruning transaction inserted %d rows into %s", len(rows), full)
		}
	}
	for full, rows := range ci.Deleted {
		if full != cursorTable && len(rows) > 0 {
			w.violate("prune-wrote-rows", "the pruning transaction deleted %d rows of %s", len(rows), full)
		}
	}
	del := ci.Deleted[cursorTable]
	if len(del) == 0 {
		return
	}
	w.stat("prune_removed_rows", len(del))
	ts := ci.Snap.Table(cursorTable)
	if ts == nil {
		return
	}
	ni := ts.Col("num")
	byPair := map[string][]int64{}
	for _, r := range del {
		s, i, ok := stamp(ts.Cols, r)
		if !ok {
			continue
		}
		n, _ := valInt(r.Vals[ni])
		byPair[s+"/"+i] = append(byPair[s+"/"+i], n)
	}
	var keys []string
	for k := range byPair {
		keys = append(keys, k)
	}
	sort.Strings(keys)
	for _, k := range keys {
		gone := byPair[k]
		var ps *pairState
		for _, p := range w.pairs {
			if p.key == k {
				ps = p
			}
		}
		if ps == nil {
			continue
		}
		left := w.cursorsOf(ci.Snap, ps)
		maxGone := gone[0]
		for _, n := range gone {
			if n > maxGone {
				maxGone = n
			}
		}
		if len(left) < keep {
			w.violate("prune-lost-position", "pruning with keep=%d left pair %s with %d position rows after removing %d (newest removed: %d)", keep, k, len(left), len(gone), maxGone)
			continue
		}
		if left[0].num < maxGone {
			w.violate("prune-lost-position", "pruning with keep=%d removed position %d of pair %s but kept the older %d", keep, maxGone, k, left[0].num)
		}
		// the pair's newest position is unchanged, so nothing else moves
	}
}
