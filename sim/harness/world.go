package harness

import (
	"bytes"
	"context"
	"encoding/json"
	"errors"
	"fmt"
	"hash/fnv"
	"io"
	"log/slog"
	"net"
	"net/http"
	"os"
	"regexp"
	"sort"
	"strings"
	"sync"
	"sync/atomic"
	"testing"
	"testing/synctest"
	"time"

	"verifsim/core"
	"verifsim/fakepg"
	"verifsim/model"
	"verifsim/node"

	"github.com/indexsupply/shovel/jrpc2"
	"github.com/indexsupply/shovel/shovel"
	"github.com/indexsupply/shovel/shovel/config"
	"github.com/indexsupply/shovel/shovel/web"
	"github.com/indexsupply/shovel/verifhook"
	"github.com/indexsupply/shovel/wctx"
	"github.com/jackc/pgx/v5/pgxpool"
)

type Violation struct {
	Class string `json:"class"`
	Msg   string `json:"msg"`
	Step  int    `json:"step"`
}

type Result struct {
	Prop       string         `json:"prop"`
	Seed       uint64         `json:"seed"`
	Violations []Violation    `json:"violations,omitempty"`
	HarnessErr string         `json:"harness_err,omitempty"`
	Steps      int            `json:"steps"`
	Decisions  []uint32       `json:"decisions,omitempty"`
	NDecisions int            `json:"n_decisions"`
	LogHash    string         `json:"log_hash"`
	LogTail    []string       `json:"log_tail,omitempty"`
	Stats      map[string]int `json:"stats"`
	SimTimeMs  int64          `json:"sim_time_ms"`
	Commits    int            `json:"commits"`
	Converges  int            `json:"converges"`
	NonTrivial bool           `json:"nontrivial"`
	Quiesced   bool           `json:"quiesced"`
	StateHash  string         `json:"state_hash"`
	SemHash    string         `json:"sem_hash"`
	PGClasses  []string       `json:"pg_classes,omitempty"`
	HTTPSizes  []int          `json:"http_sizes,omitempty"`
	PlanDigest string         `json:"plan_digest"`
}

type srcState struct {
	batch  int // settings in effect for the current generation (may change at a restart)
	conc   int
	plan   SourcePlan
	node   *node.Node
	client *jrpc2.Client // current generation
}

type pairState struct {
	idx   int
	key   string // "src/ig"
	src   *srcState
	decl  *model.Decl
	ref   model.SrcRef
	ig    config.Integration
	owner string
	pool  *pgxpool.Pool
	task  *shovel.Task

	// actor
	inCall         bool
	calls          int
	callsHealed    int
	quietRun       int
	sinceChange    int // "nothing new"/"done" outcomes since the last position change of any pair of its source
	idle           bool
	curAtCallStart int64
	healBound      int
	stuckReported  bool
	outcomes       []string // recent outcomes
	lastErr        string
	callCommits    []*fakepg.CommitInfo
	callLostAck    bool
	callStart      int // step at which current call started

	// oracle state
	origin        int64 // first block expected to be indexed; -1 unknown
	curNum        int64 // newest recorded position; -1 none
	curHash       []byte
	maxEverNum    int64
	everCommitted bool
	done          bool
	// curHist: every change of the newest recorded position, with the number
	// of commits processed before it (C05: what a dependent could have read
	// during its call)
	curHist      []curChange
	callStartSeq int // commits processed when the current call was started
	// lookupsUnreliable: a step of this pair did its reference lookups while a
	// referenced integration was unwound (known finding F30): its rows may be
	// incomplete, so row comparisons are not judged for it any more
	lookupsUnreliable bool
	// unreliable: block numbers whose rows were written by such a step
	unreliable       map[int64]bool
	staleRefReported bool
}

type curChange struct {
	seq int
	num int64
}

type outcomeRec struct {
	p   *pairState
	err error
}

type actorRef struct {
	p   *pairState
	gen int
}

type httpEvent struct {
	host  string
	url   string
	reqs  []node.Request
	batch bool
	ws    bool // a websocket upgrade request
}

type httpResult struct {
	status int
	body   []byte
	err    error
}

type pgDecision struct {
	v     fakepg.Verdict
	code  string
	crash int // 1: process dies before the group executes, 2: right after
}

type stopSignal struct{}

var errSkipRun = errors.New("skip run")

var theWorld *World
var hookOnce sync.Once

type World struct {
	t           *testing.T
	plan        *Plan
	st          *core.Stream
	sched       *core.Sched
	clock       *core.Clock
	srv         *fakepg.Server
	srcs        map[string]*srcState
	pairs       []*pairState
	conf        config.Root
	gen         int
	step        int
	healed      bool
	dead        atomic.Bool // teardown: transport fails instantly
	free        bool        // free-running mode: nothing parks, hooks off (C18)
	noActors    bool
	ending      atomic.Bool // the run is over: runners are being stopped
	freeRunners atomic.Int64
	httpEarly   atomic.Int64
	freeID      int64 // != 0: runs outside a bubble; its hosts carry the id
	setup       bool  // setup phase: PG gate auto-executes

	mu         sync.Mutex
	commits    []*fakepg.CommitInfo
	seenCommit int
	commitSeq  int // commits handed to the oracle so far
	viol       []Violation
	harnessErr string
	stats      map[string]int
	grown      int
	reorgs     int
	converges  int
	pools      []*pgxpool.Pool
	actorsLive int

	stMu         sync.Mutex
	pgSeen       int
	httpSeen     int
	pgClasses    []string
	httpSizes    []int
	okOutcomes   int
	scriptFired  map[int]bool
	c08          *c08State
	c20          *c20State
	mgr          *shovel.Manager
	web          *web.Handler
	setupPool    *pgxpool.Pool
	c20SaveConf  config.Root
	c20Verdicts  []error
	c20Progress  map[string]int64
	c15Submitted bool
	pendingJump  time.Duration
	wsConns      []*wsConn
	earlySeen    map[string]int
	pgClassSeen  map[string]int
	lateSeen     map[string]bool
	outcomeQ     []outcomeRec
	onHookEvent  func(name string, kv ...any)
	projCache    map[string][]string
	extra        Extra
}

// Extra lets property packages add checks.
type Extra struct {
	OnCommit  func(w *World, p *pairState, ci *fakepg.CommitInfo)
	OnOutcome func(w *World, p *pairState, err error)
	AtEnd     func(w *World)
	OnSQL     func(w *World, owner, kind, sql string)
}

// sources returns the source states in a fixed order (by name): iterating the
// map directly would make log lines and draws depend on Go's map order.
func (w *World) sources() []*srcState {
	names := make([]string, 0, len(w.srcs))
	for n := range w.srcs {
		names = append(names, n)
	}
	sort.Strings(names)
	out := make([]*srcState, 0, len(names))
	for _, n := range names {
		out = append(out, w.srcs[n])
	}
	return out
}

func (w *World) stat(k string, n int) {
	w.mu.Lock()
	w.stats[k] += n
	w.mu.Unlock()
}

func (w *World) violate(class, format string, a ...any) {
	w.mu.Lock()
	defer w.mu.Unlock()
	if len(w.viol) < 20 {
		w.viol = append(w.viol, Violation{Class: class, Msg: fmt.Sprintf(format, a...), Step: w.step})
	}
}

func (w *World) harnessFail(format string, a ...any) {
	w.mu.Lock()
	defer w.mu.Unlock()
	if w.harnessErr == "" {
		w.harnessErr = fmt.Sprintf(format, a...)
	}
}

// ---- transport ----

type simTransport struct{}

// the random tail of a request id ("blocks-29-1-9f3a..."), possibly cut off
var earlyIDRE = regexp.MustCompile(`-[0-9a-f]{8,}("|$)`)

func (simTransport) RoundTrip(req *http.Request) (*http.Response, error) {
	var head []byte
	if w := theWorld; w != nil && !w.free && w.plan != nil && w.plan.Faults.EarlyRefuseEvery > 0 && !w.healed && directRT == nil && req.Body != nil {
		// connection refused while the request is still being written: the
		// body is closed with its writer blocked, as a real transport does on a
		// dial error. Which requests are refused is a function of what they
		// ask (the first bytes, without the random request id) and of how often
		// the same thing has been asked before - never of the order in which
		// concurrent callers arrive here.
		buf := make([]byte, 64)
		n, _ := io.ReadFull(req.Body, buf)
		head = buf[:n]
		what := string(earlyIDRE.ReplaceAll(head, nil))
		w.mu.Lock()
		w.earlySeen[what]++
		k := w.earlySeen[what]
		w.mu.Unlock()
		hsh := fnv.New64a()
		fmt.Fprintf(hsh, "%s#%d", what, k)
		if hsh.Sum64()%uint64(w.plan.Faults.EarlyRefuseEvery) == 0 {
			req.Body.Close()
			w.stat("fault_http_refused_before_body", 1)
			w.stat("fault_total", 1)
			return nil, fmt.Errorf("dial tcp %s: connect: connection refused", req.URL.Hostname())
		}
	}
	var body []byte
	if req.Body != nil {
		body, _ = io.ReadAll(req.Body)
		req.Body.Close()
		body = append(head, body...)
	}
	if directRT != nil {
		return directRoundTrip(req, body)
	}
	if f := c08FreeRT; f != nil {
		return f(req, body)
	}
	w := theWorld
	if w == nil {
		return nil, errors.New("no simulation world")
	}
	if i := strings.Index(req.URL.Hostname(), ".free"); i >= 0 {
		// a world that runs outside a bubble (free-running manager runs): its
		// requests are recognised by the host name, so that a straggler of a
		// finished run can never touch the world of a later run
		var id int64
		fmt.Sscanf(req.URL.Hostname()[i+5:], "%d", &id)
		fw := curFreeWorld.Load()
		if fw == nil || fw.freeID != id || fw.dead.Load() {
			return nil, fmt.Errorf("dial tcp %s: connection refused (world gone)", req.URL.Hostname())
		}
		return fw.freeRoundTrip(req, body)
	}
	if w.free {
		return w.freeRoundTrip(req, body)
	}
	host := req.URL.Hostname()
	if w.dead.Load() || !w.liveHost(host) {
		return nil, fmt.Errorf("dial tcp %s: connection refused (retired)", host)
	}
	if strings.EqualFold(req.Header.Get("Upgrade"), "websocket") {
		v, err := w.sched.Park(req.Context(), "http", "http "+host+" ws-dial", &httpEvent{host: host, url: req.URL.String(), ws: true})
		if err != nil {
			return nil, err
		}
		if res := v.(httpResult); res.err != nil {
			return nil, res.err
		} else if res.status != http.StatusSwitchingProtocols {
			return &http.Response{Status: fmt.Sprint(res.status), StatusCode: res.status, Proto: "HTTP/1.1", ProtoMajor: 1, ProtoMinor: 1,
				Header: http.Header{}, Body: io.NopCloser(bytes.NewReader(nil)), Request: req}, nil
		}
		return w.wsUpgrade(req, host)
	}
	reqs, batch, err := node.ParseBody(body)
	if err != nil {
		w.harnessFail("transport: cannot parse request body %q: %v", body, err)
		return nil, err
	}
	ev := &httpEvent{host: host, url: req.URL.String(), reqs: reqs, batch: batch}
	if st := w.c08; st != nil && !batch && len(reqs) == 1 && len(reqs[0].Params) > 0 && string(reqs[0].Params[0]) == `"latest"` {
		// "before the source is asked again": the source is being asked from
		// the moment the request is on its way, not only once it is answered
		st.mu.Lock()
		st.headHits = 0
		st.mu.Unlock()
	}
	key := "http " + host + " " + node.Summary(reqs)
	if !batch && string(reqs[0].ID) == `"1"` {
		key += " (poller)" // the head poller uses the fixed request id "1"
	}
	v, err := w.sched.Park(req.Context(), "http", key, ev)
	if err != nil {
		return nil, err
	}
	res := v.(httpResult)
	if res.err != nil {
		return nil, res.err
	}
	return &http.Response{
		Status:        fmt.Sprintf("%d", res.status),
		StatusCode:    res.status,
		Proto:         "HTTP/1.1",
		ProtoMajor:    1,
		ProtoMinor:    1,
		Header:        http.Header{"Content-Type": []string{"application/json"}},
		Body:          io.NopCloser(bytes.NewReader(res.body)),
		ContentLength: int64(len(res.body)),
		Request:       req,
	}, nil
}

func hostFor(src string, gen, replica int) string {
	return fmt.Sprintf("%s-g%d-r%d.sim", src, gen, replica)
}

var (
	curFreeWorld atomic.Pointer[World]
	freeWorldSeq atomic.Int64
)

func parseHost(host string) (src string, gen, replica int, ok bool) {
	h := strings.TrimSuffix(host, ".sim")
	if k := strings.Index(h, ".free"); k >= 0 {
		h = h[:k]
	}
	i := strings.LastIndex(h, "-r")
	j := strings.LastIndex(h, "-g")
	if i < 0 || j < 0 || j > i {
		return "", 0, 0, false
	}
	if _, err := fmt.Sscanf(h[j+2:i], "%d", &gen); err != nil {
		return "", 0, 0, false
	}
	if _, err := fmt.Sscanf(h[i+2:], "%d", &replica); err != nil {
		return "", 0, 0, false
	}
	return h[:j], gen, replica, true
}

func (w *World) liveHost(host string) bool {
	_, gen, _, ok := parseHost(host)
	return ok && gen == w.gen
}

// ---- pools ----

func (w *World) newPool(owner string, max int32) (*pgxpool.Pool, error) {
	cfg, err := pgxpool.ParseConfig("postgres://u:p@fake:5432/shovel?sslmode=disable")
	if err != nil {
		return nil, err
	}
	cfg.ConnConfig.DialFunc = func(ctx context.Context, network, addr string) (net.Conn, error) { return w.srv.Dial(owner) }
	cfg.ConnConfig.LookupFunc = func(ctx context.Context, host string) ([]string, error) { return []string{"127.0.0.1"}, nil }
	cfg.HealthCheckPeriod = 100000 * time.Hour
	cfg.MaxConnIdleTime = 100000 * time.Hour
	cfg.MaxConnLifetime = 100000 * time.Hour
	cfg.MaxConns = max
	p, err := pgxpool.NewWithConfig(context.Background(), cfg)
	if err != nil {
		return nil, err
	}
	w.mu.Lock()
	w.pools = append(w.pools, p)
	w.mu.Unlock()
	return p, nil
}

func (w *World) gate(ev *fakepg.Event) (fakepg.Verdict, string) {
	if w.setup || w.free || strings.HasPrefix(ev.Owner, "setup") {
		if w.free && w.dead.Load() {
			return fakepg.DropBefore, ""
		}
		return fakepg.Exec, ""
	}
	if w.dead.Load() {
		return fakepg.DropBefore, ""
	}
	if ev.Kind == "copy" || strings.HasPrefix(ev.Class, "copy ") {
		// COPY groups cannot park (pgx waits for the server on an internal
		// mutex during COPY, which synctest does not count as durably
		// blocked): the verdict is drawn inline. Exactly one goroutine tree
		// runs per scheduler step and the scheduler itself is inside
		// synctest.Wait, so this draw is in the deterministic causal chain
		// of the released event. A COPY only touches the transaction's
		// private overlay, so no interleaving observable by another session
		// is lost.
		if w.plan.Burst {
			// several trees run at once: no draw, no log line (their order
			// would depend on the Go scheduler)
			return fakepg.Exec, ""
		}
		w.stMu.Lock()
		d := w.decidePG(ev)
		w.sched.Log.Add("%d inline pg %s %s -> %d%s", w.step, ev.Owner, ev.Class, d.v, d.code)
		w.stMu.Unlock()
		return d.v, d.code
	}
	class := ev.Class
	if strings.HasPrefix(class, "set application_name") {
		// loadTasks builds the tasks in map-iteration order; which task's
		// name is set first must not show in keys or in the event log
		class = "set application_name"
	}
	v, _ := w.sched.Park(nil, "pg", "pg "+ev.Owner+" "+class, ev)
	d := v.(pgDecision)
	return d.v, d.code
}

func ownerGen(owner string) int {
	i := strings.LastIndex(owner, "#g")
	if i < 0 {
		return -1
	}
	g := -1
	fmt.Sscanf(owner[i+2:], "%d", &g)
	return g
}

func ownerPairKey(owner string) string {
	if !strings.HasPrefix(owner, "t:") {
		return ""
	}
	s := owner[2:]
	if i := strings.LastIndex(s, "#g"); i >= 0 {
		s = s[:i]
	}
	return s
}

// ---- construction ----

func installHooks() {
	hookOnce.Do(func() {
		http.DefaultTransport = simTransport{}
		verifhook.OnAcquire = func(lock any, kind string, a, b uint64) {
			if w := theWorld; w != nil && !w.free {
				w.sched.Acquire(lock, kind, a, b, "")
			}
		}
		verifhook.OnRelease = func(lock any) {
			if w := theWorld; w != nil && !w.free {
				w.sched.ReleaseLock(lock)
			}
		}
		verifhook.OnEvent = func(name string, kv ...any) {
			w := theWorld
			if w == nil {
				return
			}
			if w.free {
				// free-running worlds only count their live runners (to know
				// when a stopped manager has really stopped)
				switch name {
				case "runTask.start":
					w.freeRunners.Add(1)
				case "runTask.stop":
					w.freeRunners.Add(-1)
				}
				return
			}
			switch name {
			case "config.integrations.order":
				// loadTasks runs inside one goroutine tree released by the
				// scheduler (or during setup): the draws are in the causal
				// chain of that event. Burst runs keep the canonical order.
				n, _ := kv[0].(int)
				swap, _ := kv[1].(func(i, j int))
				if swap == nil || w.plan.Burst || !w.plan.Checks["permute_integrations"] {
					return
				}
				w.stMu.Lock()
				for i := n - 1; i > 0; i-- {
					j := w.st.Draw(i+1, "ig-order")
					// 0 = keep the canonical position
					if j != 0 {
						swap(i, i-j)
					}
				}
				w.stMu.Unlock()
			case "cache.segment":
				w.sched.SegmentOf(kv[0], kv[1])
			default:
				if w.onHookEvent != nil {
					w.onHookEvent(name, kv...)
				}
			}
		}
		// no handler lock: a mutexed log handler would order the tasks at every log line (and hide races)
		slog.SetDefault(slog.New(slog.DiscardHandler))
	})
}

func (w *World) urlsFor(src string) []string {
	sp := w.srcs[src].plan
	var out []string
	n := sp.NURLs
	if n < 1 {
		n = 1
	}
	for i := 0; i < n; i++ {
		h := hostFor(src, w.gen, i)
		if w.freeID != 0 {
			h = strings.TrimSuffix(h, ".sim") + fmt.Sprintf(".free%d.sim", w.freeID)
		}
		out = append(out, "http://"+h)
	}
	return out
}

// build parses the plan into a validated shovel configuration, prepares the
// database (schema + migrations) and the nodes.
func (w *World) build() error {
	p := w.plan
	for _, sp := range p.Sources {
		n := node.New(sp.Name, sp.ChainID, p.Seed, MakeFiller(p, sp.Name))
		n.Grow(sp.InitLen)
		w.srcs[sp.Name] = &srcState{plan: sp, node: n, batch: sp.Batch, conc: sp.Conc}
	}
	cj, err := p.ConfigJSON(w.urlsFor)
	if err != nil {
		return err
	}
	if err := json.Unmarshal(cj, &w.conf); err != nil {
		return fmt.Errorf("config json: %w", err)
	}
	if err := config.ValidateFix(&w.conf); err != nil {
		return fmt.Errorf("ValidateFix rejected generated config: %w", err)
	}
	if err := w.srv.InstallSchema(shovel.Schema); err != nil {
		return fmt.Errorf("schema: %w", err)
	}
	sp, err := w.newPool("setup", 2)
	if err != nil {
		return err
	}
	for _, ddl := range p.PreDDL {
		if _, err := sp.Exec(context.Background(), ddl); err != nil {
			return fmt.Errorf("pre-ddl %q: %w", ddl, err)
		}
	}
	if err := config.Migrate(context.Background(), sp, w.conf); err != nil {
		if p.Checks["migrate_is_property"] {
			w.violate("migration-failed", "migration of an accepted configuration failed: %v", err)
			return errSkipRun
		}
		return fmt.Errorf("migrate: %w", err)
	}
	for i, d := range p.Decls {
		var ig config.Integration
		for _, c := range w.conf.Integrations {
			if c.Name == d.Name {
				ig = c
			}
		}
		if !d.Enabled {
			// a disabled integration has no task (and records nothing)
			continue
		}
		for _, ref := range d.Sources {
			ss := w.srcs[ref.Name]
			if ss == nil {
				return fmt.Errorf("decl %s references unknown source %s", d.Name, ref.Name)
			}
			ps := &pairState{idx: len(w.pairs), key: ref.Name + "/" + d.Name, src: ss, decl: p.Decls[i], ref: ref, ig: ig, origin: -1, curNum: -1, maxEverNum: -1}
			if ref.Start > 0 {
				ps.origin = int64(ref.Start)
			}
			w.pairs = append(w.pairs, ps)
		}
	}
	return nil
}

func (w *World) startGenerationTasksOnly() error {
	w.noActors = true
	defer func() { w.noActors = false }()
	return w.startGeneration()
}

// startGeneration creates clients, pools, tasks and actors for w.gen.
func (w *World) startGeneration() error {
	p := w.plan
	w.setup = true
	defer func() { w.setup = false }()
	nIG := len(p.Decls)
	for _, ss := range w.sources() {
		name := ss.plan.Name
		poll := time.Duration(ss.plan.PollMs) * time.Millisecond
		if poll <= 0 {
			poll = time.Second
		}
		ss.client = jrpc2.New(w.urlsFor(name)...).WithMaxReads(nIG).WithPollDuration(poll)
		if ss.plan.WS {
			ss.client = ss.client.WithWSURL("ws://" + strings.TrimPrefix(w.urlsFor(name)[0], "http://"))
		}
	}
	var shared *pgxpool.Pool
	// With one shared pool (as in the real binary) the tasks are built by the
	// repository's own loadTasks from the configuration, so the wiring of
	// names, ranges, settings and clients per (source, integration) is real
	// code too; otherwise each task is built here with a pool of its own.
	loaded := map[string]*shovel.Task{}
	if p.SharedPool && !p.Checks["no_loadtasks"] {
		var err error
		shared, err = w.newPool(fmt.Sprintf("shared#g%d", w.gen), int32(2*len(w.pairs)+12))
		if err != nil {
			return err
		}
		conf := w.conf
		conf.Sources = append([]config.Source(nil), w.conf.Sources...)
		for i := range conf.Sources {
			ss := w.srcs[conf.Sources[i].Name]
			if ss == nil {
				continue
			}
			conf.Sources[i].URLs = w.urlsFor(ss.plan.Name)
			if ss.plan.WS {
				conf.Sources[i].WSURL = "ws://" + strings.TrimPrefix(conf.Sources[i].URLs[0], "http://")
			}
			conf.Sources[i].BatchSize, conf.Sources[i].Concurrency = ss.batch, ss.conc
		}
		tasks, err := shovel.LoadTasks(context.Background(), shared, conf)
		if err != nil {
			return fmt.Errorf("LoadTasks: %w", err)
		}
		for _, t := range tasks {
			loaded[t.VerifSrcName()+"/"+t.VerifIGName()] = t
		}
		if len(loaded) != len(w.pairs) {
			return fmt.Errorf("LoadTasks built %d tasks for %d pairs", len(loaded), len(w.pairs))
		}
		w.stat("generations_built_by_loadtasks", 1)
	}
	for _, ps := range w.pairs {
		ps.owner = fmt.Sprintf("t:%s#g%d", ps.key, w.gen)
		var pool *pgxpool.Pool
		var err error
		if p.SharedPool {
			if shared == nil {
				shared, err = w.newPool(fmt.Sprintf("shared#g%d", w.gen), int32(2*len(w.pairs)+12))
				if err != nil {
					return err
				}
			}
			pool = shared
		} else {
			pool, err = w.newPool(ps.owner, 12)
			if err != nil {
				return err
			}
		}
		ps.pool = pool
		ctx := context.Background()
		ctx = wctx.WithChainID(ctx, ps.src.plan.ChainID)
		ctx = wctx.WithSrcName(ctx, ps.src.plan.Name)
		ctx = wctx.WithIGName(ctx, ps.decl.Name)
		task := loaded[ps.key]
		if len(loaded) > 0 && task == nil {
			return fmt.Errorf("LoadTasks built no task for pair %s", ps.key)
		}
		if task == nil {
			task, err = shovel.NewTask(
				shovel.WithContext(ctx),
				shovel.WithPG(pool),
				shovel.WithRange(ps.ref.Start, ps.ref.Stop),
				shovel.WithPollDuration(time.Duration(ps.src.plan.PollMs)*time.Millisecond),
				shovel.WithConcurrency(ps.src.conc, ps.src.batch),
				shovel.WithSrcName(ps.src.plan.Name),
				shovel.WithChainID(ps.src.plan.ChainID),
				shovel.WithSource(ps.src.client),
				shovel.WithIntegration(ps.ig),
			)
			if err != nil {
				return fmt.Errorf("NewTask %s: %w", ps.key, err)
			}
		}
		ps.task = task
		ps.inCall = false
		idle := false
		for _, k := range p.Idle {
			if k == ps.key {
				idle = true
			}
		}
		if idle {
			ps.idle = true
			continue
		}
		if w.noActors {
			continue
		}
		w.mu.Lock()
		w.actorsLive++
		w.mu.Unlock()
		go w.actor(ps, w.gen, task)
	}
	w.startPruner()
	return nil
}

func (w *World) actor(p *pairState, gen int, task *shovel.Task) {
	defer func() {
		w.mu.Lock()
		w.actorsLive--
		w.mu.Unlock()
	}()
	for {
		// the number of calls made so far is part of the key: with the
		// all-zero decision vector (first pending event in canonical order)
		// the actor that has run least goes first, so the benign schedule is fair
		w.mu.Lock()
		calls := p.calls
		w.mu.Unlock()
		v, _ := w.sched.Park(nil, "step", fmt.Sprintf("step %06d %s", calls, p.key), actorRef{p, gen})
		if _, stop := v.(stopSignal); stop {
			return
		}
		err := w.safeConverge(p, task)
		if gen != w.gen {
			return
		}
		w.mu.Lock()
		p.inCall = false
		w.outcomeQ = append(w.outcomeQ, outcomeRec{p, err})
		w.mu.Unlock()
	}
}

func (w *World) safeConverge(p *pairState, task *shovel.Task) (err error) {
	defer func() {
		if r := recover(); r != nil {
			err = fmt.Errorf("PANIC: %v", r)
			w.violate(panicClass(r), "pair %s: Converge panicked: %v", p.key, r)
		}
	}()
	return task.Converge()
}

var digitsRE = regexp.MustCompile(`[0-9]+`)

// panicClass names a recovered panic by its message with numbers blanked, so
// that different panics are different violation classes.
func panicClass(r any) string {
	m := digitsRE.ReplaceAllString(fmt.Sprint(r), "N")
	if len(m) > 70 {
		m = m[:70]
	}
	return "panic: " + m
}

func outcomeName(err error) string {
	switch {
	case err == nil:
		return "ok"
	case errors.Is(err, shovel.ErrNothingNew):
		return "nothing-new"
	case errors.Is(err, shovel.ErrDone):
		return "done"
	case errors.Is(err, shovel.ErrAhead):
		return "ahead"
	case errors.Is(err, shovel.ErrReorg):
		return "reorg"
	}
	return "error"
}

// ---- run ----

// Run executes one simulated run of plan under the decision stream.
func Run(t *testing.T, plan *Plan, st *core.Stream, extra Extra, keepLog bool) (res *Result) {
	installHooks()
	res = &Result{Prop: plan.Prop, Seed: plan.Seed, Stats: map[string]int{}, PlanDigest: plan.Digest()}
	w := &World{t: t, plan: plan, st: st, srcs: map[string]*srcState{}, earlySeen: map[string]int{}, stats: res.Stats, projCache: map[string][]string{}, extra: extra, scriptFired: map[int]bool{}}
	// The bubble runs on a helper goroutine: when the race detector reported
	// something during the bubble, synctest.Test ends with t.FailNow(), which
	// must not take the worker's goroutine (and the remaining runs) with it.
	bubbleDone := make(chan any, 1)
	go func() {
		var pv any
		defer func() { bubbleDone <- pv }()
		defer func() { pv = recover() }()
		runBubble(t, w, res, extra, keepLog)
	}()
	if pv := <-bubbleDone; pv != nil {
		panic(pv)
	}
	return finishRun(w, res, plan, st, keepLog)
}

func runBubble(t *testing.T, w *World, res *Result, extra Extra, keepLog bool) {
	func() {
		defer func() {
			if r := recover(); r != nil {
				msg := fmt.Sprint(r)
				if strings.Contains(msg, "deadlock: main bubble goroutine has exited") {
					res.Stats["teardown_leftover"]++
					return
				}
				panic(r)
			}
		}()
		synctest.Test(t, func(t *testing.T) {
			w.sched = core.NewSched()
			w.sched.Burst = w.plan.Burst
			w.sched.Log.Keep = keepLog
			if sp := os.Getenv("VERIF_STREAMLOG"); sp != "" {
				if f, err := os.Create(sp); err == nil {
					w.sched.Log.Sink = f
					w.sched.Log.Keep = true
				}
			}
			w.clock = core.NewClock()
			w.srv = fakepg.NewServer()
			w.srv.DB.Now = time.Now
			w.srv.Gate = w.gate
			w.srv.DB.OnCommit = func(ci *fakepg.CommitInfo) {
				w.mu.Lock()
				w.commits = append(w.commits, ci)
				w.mu.Unlock()
			}
			if extra.OnSQL != nil {
				w.srv.OnSQL = func(owner, kind, sql string) { extra.OnSQL(w, owner, kind, sql) }
			}
			if os.Getenv("VERIF_DEBUG_EXEC") != "" {
				w.srv.OnExecute = func(connID int, owner, sql string, params []fakepg.Value, tx *fakepg.Tx) {
					if strings.Contains(sql, "select true from") {
						snap := w.srv.DB.Snapshot()
						var hits []string
						for _, tn := range []string{"public.t_ref0", "public.t_ref1", "public.t_refs"} {
							ts := snap.Table(tn)
							if ts == nil {
								continue
							}
							ci, bi, ii := ts.Col("c_pool"), ts.Col("block_num"), ts.Col("ig_name")
							for _, r := range ts.Rows {
								if b, ok := r.Vals[ci].([]byte); ok && fmt.Sprintf("%x", b) == fmt.Sprintf("%x", params[0]) {
									hits = append(hits, fmt.Sprintf("%s:%v@%v", tn, r.Vals[ii], r.Vals[bi]))
								}
							}
						}
						w.sched.Log.Add("%d DEBUG lookup %s param=%x committed hits=%v", w.step, owner, params[0], hits)
					}
				}
			}
			theWorld = w
			defer func() { theWorld = nil }()
			w.setup = true
			err := w.build()
			if err == nil {
				err = w.startGeneration()
			}
			if err == errSkipRun {
				// a violation was recorded during setup; nothing to run
			} else if err != nil {
				w.harnessFail("setup: %v", err)
			} else {
				w.loop()
				w.finalChecks()
			}
			w.teardown()
			res.SimTimeMs = w.clock.Elapsed().Milliseconds()
		})
	}()
}

func finishRun(w *World, res *Result, plan *Plan, st *core.Stream, keepLog bool) *Result {
	res.Violations = w.viol
	res.HarnessErr = w.harnessErr
	if w.srv != nil && w.srv.Unsupported != nil && res.HarnessErr == "" {
		res.HarnessErr = w.srv.Unsupported.Error()
	}
	res.Steps = w.step
	res.Decisions = st.Recorded()
	res.NDecisions = len(res.Decisions)
	if w.sched != nil {
		res.LogHash = fmt.Sprintf("%016x", w.sched.Log.Hash())
		if keepLog {
			res.LogTail = w.sched.Log.Tail(1 << 30)
		} else {
			res.LogTail = w.sched.Log.Tail(80)
		}
	}
	res.Commits = len(w.commits)
	res.Converges = w.converges
	res.StateHash = w.stateHash()
	res.SemHash = w.semHash()
	if plan.Checks["report_seams"] {
		res.PGClasses = w.pgClasses
		res.HTTPSizes = w.httpSizes
	}
	if plan.Burst {
		res.NonTrivial = w.stats["commit_data"] > 0 && w.stats["burst_windows_concurrent"] > 0
		return res
	}
	res.NonTrivial = w.stats["commit_data"] > 0 && (w.stats["fault_total"] > 0 || w.stats["chain_events"] > 0 || len(w.pairs) > 1 || plan.Checks["input_driven"])
	return res
}

func (w *World) teardown() {
	w.dead.Store(true)
	w.wsCloseAll(-1)
	// drainOnce fails every parked HTTP/PG/step event and grants lock
	// requests that are enabled (never one whose lock is still held: the
	// real Lock() behind it would block on a mutex, which synctest cannot
	// wait out). Returns whether anything is still parked.
	drainOnce := func() (left int, progressed bool) {
		synctest.Wait()
		for _, p := range w.sched.All() {
			switch p.Kind {
			case "lock":
			case "http":
				w.sched.Release(p, httpResult{err: errors.New("connection reset (teardown)")})
				progressed = true
			case "pg":
				w.sched.Release(p, pgDecision{v: fakepg.DropBefore})
				progressed = true
			default:
				w.sched.Release(p, stopSignal{})
				progressed = true
			}
		}
		synctest.Wait()
		for _, p := range w.sched.Collect() {
			if p.Kind == "lock" {
				w.sched.Release(p, nil)
				progressed = true
				synctest.Wait()
				break
			}
		}
		return len(w.sched.All()), progressed
	}
	for i := 0; i < 400; i++ {
		left, progressed := drainOnce()
		if left == 0 {
			break
		}
		if !progressed {
			// holders of the remaining locks are stalled requests: let their
			// client timeouts fire
			time.Sleep(11 * time.Second)
		}
	}
	w.srv.CloseAll()
	w.mu.Lock()
	pools := w.pools
	w.mu.Unlock()
	for _, p := range pools {
		go p.Close()
	}
	// let pollers tick once more and exit, stalled requests time out, and pgxpool timers drain
	time.Sleep(12 * time.Second)
	for i := 0; i < 100; i++ {
		left, progressed := drainOnce()
		if left == 0 {
			break
		}
		if !progressed {
			time.Sleep(11 * time.Second)
		} else {
			time.Sleep(2 * time.Second)
		}
	}
	synctest.Wait()
}

func (w *World) stateHash() string {
	if w.srv == nil {
		return ""
	}
	snap := w.srv.DB.Snapshot()
	var names []string
	for k := range snap.Tables {
		names = append(names, k)
	}
	sort.Strings(names)
	var sb strings.Builder
	skip := map[string]bool{"insert_at": true, "latency": true}
	for _, k := range names {
		ts := snap.Tables[k]
		var rows []string
		for _, r := range ts.Rows {
			rows = append(rows, fakepg.FormatRow(ts.Cols, r, skip))
		}
		sort.Strings(rows)
		sb.WriteString(k + "\n" + strings.Join(rows, "\n") + "\n")
	}
	return fmt.Sprintf("%x", node.Keccak([]byte(sb.String()))[:8])
}

// semHash hashes what the retry oracle compares: every data row and the set
// of (src, ig, num, hash) positions; bookkeeping columns are left out.
func (w *World) semHash() string {
	if w.srv == nil {
		return ""
	}
	snap := w.srv.DB.Snapshot()
	var names []string
	for k := range snap.Tables {
		names = append(names, k)
	}
	sort.Strings(names)
	var sb strings.Builder
	keep := map[string]bool{"src_name": true, "ig_name": true, "num": true, "hash": true}
	newestOnly := len(w.plan.ScriptChain) > 0 || w.plan.Faults.MaxReorgs > 0
	for _, k := range names {
		ts := snap.Tables[k]
		if strings.HasPrefix(k, "shovel.") && k != cursorTable {
			continue
		}
		var rows []string
		for _, r := range ts.Rows {
			if k == cursorTable && newestOnly {
				// with reorgs the retained history depends on when the
				// replacement landed relative to the steps; only the newest
				// position of each pair is comparable across runs
				continue
			}
			if k == cursorTable {
				var parts []string
				for i, c := range ts.Cols {
					if keep[c.Name] && i < len(r.Vals) {
						parts = append(parts, c.Name+"="+fakepg.FormatValue(r.Vals[i]))
					}
				}
				sort.Strings(parts)
				rows = append(rows, strings.Join(parts, " "))
			} else {
				rows = append(rows, fakepg.FormatRow(ts.Cols, r, nil))
			}
		}
		if k == cursorTable && newestOnly {
			for _, ps := range w.pairs {
				cs := w.cursorsOf(snap, ps)
				if len(cs) > 0 {
					c := cs[len(cs)-1]
					rows = append(rows, fmt.Sprintf("%s newest=%d/%x", ps.key, c.num, c.hash))
				}
			}
		}
		sort.Strings(rows)
		sb.WriteString(k + "\n" + strings.Join(rows, "\n") + "\n")
	}
	if os.Getenv("VERIF_DEBUG_SEM") != "" {
		fmt.Fprintln(os.Stderr, "SEM<<"+sb.String()+">>")
	}
	return fmt.Sprintf("%x", node.Keccak([]byte(sb.String()))[:8])
}
