package harness

import (
	"encoding/hex"
	"fmt"
	"math/rand/v2"
	"strings"

	"verifsim/model"
)

// FieldType gives the column type used for each selectable field name.
var FieldType = map[string]string{
	"ig_name": "text", "src_name": "text", "chain_id": "numeric",
	"block_hash": "bytea", "block_num": "numeric", "block_time": "numeric",
	"tx_hash": "bytea", "tx_idx": "int", "tx_signer": "bytea", "tx_to": "bytea",
	"tx_value": "numeric", "tx_input": "bytea", "tx_type": "int", "tx_nonce": "numeric",
	"tx_status": "int", "tx_gas_used": "numeric", "tx_gas_price": "numeric",
	"tx_effective_gas_price": "numeric", "tx_contract_address": "bytea",
	"tx_max_priority_fee_per_gas": "numeric", "tx_max_fee_per_gas": "numeric",
	"log_idx": "int", "log_addr": "bytea", "abi_idx": "int2",
	"trace_action_idx": "int2", "trace_action_call_type": "text",
	"trace_action_from": "bytea", "trace_action_to": "bytea", "trace_action_value": "numeric",
}

// ABIColType maps an ABI elementary type to the column type used for it.
func ABIColType(t string) string {
	if i := strings.Index(t, "["); i >= 0 {
		t = t[:i]
	}
	switch {
	case strings.HasPrefix(t, "uint"), strings.HasPrefix(t, "int"):
		return "numeric"
	case t == "bool":
		return "bool"
	case t == "string":
		return "text"
	}
	return "bytea"
}

type G struct {
	R *rand.Rand
}

func NewG(seed uint64) *G { return &G{R: rand.New(rand.NewPCG(seed, seed*0x9e3779b97f4a7c15+1))} }

func (g *G) pick(xs []string) string { return xs[g.R.IntN(len(xs))] }
func (g *G) between(a, b int) int    { return a + g.R.IntN(b-a+1) }
func (g *G) chance(pct int) bool     { return g.R.IntN(100) < pct }

var staticTypes = []string{"uint256", "uint8", "uint64", "uint128", "uint32", "int256", "int8", "int64", "int24", "address", "bool", "bytes32", "bytes4"}
var eventNames = []string{"Transfer", "Swap", "Deposit", "Mint", "Sync", "Approval"}

func (g *G) addr() string { return "0x" + hex.EncodeToString(randBytes(g.R, 20)) }

// EventOpts controls the shape of generated events.
type EventOpts struct {
	MaxInputs      int
	AllowDynamic   bool // bytes / string non-indexed inputs
	AllowArray     bool // one selected array of static elements
	AllowTuple     bool
	SafeIndexedSel bool // no unselected indexed input before a selected indexed one
	AllSelected    bool
	MinSelected    int
	NoBoolArray    bool // avoid bool[] (open C11 finding: array element type mapping)
}

// Event generates an event and marks selected inputs with column names.
func (g *G) Event(name string, o EventOpts) *model.Event {
	n := g.between(1, max(o.MaxInputs, 1))
	ev := &model.Event{Name: name, Type: "event"}
	nIdx := 0
	usedArray := false
	for i := 0; i < n; i++ {
		in := model.Input{Name: fmt.Sprintf("a%d", i)}
		kind := g.R.IntN(10)
		switch {
		case kind < 6 || (!o.AllowDynamic && !o.AllowArray && !o.AllowTuple):
			in.Type = g.pick(staticTypes)
			if nIdx < 3 && g.chance(40) {
				in.Indexed = true
				nIdx++
			}
		case kind < 8 && o.AllowDynamic:
			in.Type = g.pick([]string{"bytes", "string"})
		case kind < 9 && o.AllowArray && !usedArray:
			el := g.pick(staticTypes)
			for o.NoBoolArray && el == "bool" {
				el = g.pick(staticTypes)
			}
			if g.chance(50) {
				in.Type = el + "[]"
			} else {
				in.Type = fmt.Sprintf("%s[%d]", el, g.between(1, 3))
			}
			usedArray = true
		case o.AllowTuple:
			in.Type = "tuple"
			for k := 0; k < g.between(1, 3); k++ {
				c := model.Input{Name: fmt.Sprintf("a%dc%d", i, k), Type: g.pick(staticTypes)}
				if o.AllowDynamic && g.chance(25) {
					c.Type = g.pick([]string{"bytes", "string"})
				}
				in.Components = append(in.Components, c)
			}
		default:
			in.Type = g.pick(staticTypes)
		}
		ev.Inputs = append(ev.Inputs, in)
	}
	// selection
	nsel := 0
	var sel func(in *model.Input, force bool)
	sel = func(in *model.Input, force bool) {
		if in.Type == "tuple" {
			for k := range in.Components {
				sel(&in.Components[k], force)
			}
			return
		}
		if force || o.AllSelected || g.chance(60) {
			in.Column = "c_" + in.Name
			nsel++
		}
	}
	for i := range ev.Inputs {
		sel(&ev.Inputs[i], false)
	}
	for nsel < max(o.MinSelected, 1) {
		i := g.R.IntN(len(ev.Inputs))
		if ev.Inputs[i].Column == "" && ev.Inputs[i].Type != "tuple" {
			sel(&ev.Inputs[i], true)
		} else if ev.Inputs[i].Type == "tuple" {
			sel(&ev.Inputs[i], true)
		} else if nsel >= 1 && o.MinSelected <= 1 {
			break
		}
		if nsel >= len(ev.Inputs) {
			break
		}
	}
	if o.SafeIndexedSel {
		// once an indexed input is unselected, unselect every later indexed one
		seenUnsel := false
		for i := range ev.Inputs {
			in := &ev.Inputs[i]
			if !in.Indexed {
				continue
			}
			if in.Column == "" {
				seenUnsel = true
			} else if seenUnsel {
				in.Column = ""
				nsel--
			}
		}
		if nsel <= 0 {
			// make the first input selected (it precedes every unselected indexed input)
			for i := range ev.Inputs {
				if ev.Inputs[i].Type != "tuple" {
					ev.Inputs[i].Column = "c_" + ev.Inputs[i].Name
					// re-run the rule
					seenUnsel = false
					for k := range ev.Inputs {
						in := &ev.Inputs[k]
						if !in.Indexed {
							continue
						}
						if in.Column == "" {
							seenUnsel = true
						} else if seenUnsel {
							in.Column = ""
						}
					}
					break
				}
			}
		}
	}
	return ev
}

func hasSelected(ev *model.Event) bool {
	d := model.Decl{Event: ev}
	return len(d.SelectedInputs()) > 0
}

// DeclOpts controls declaration generation.
type DeclOpts struct {
	Mode       model.Mode
	Event      EventOpts
	Fields     []string // candidate extra fields
	MaxFields  int
	AddrFilter bool
	Addrs      []string
}

func (g *G) Decl(name, table, src string, start, stop uint64, o DeclOpts) *model.Decl {
	d := &model.Decl{Name: name, Enabled: true, Sources: []model.SrcRef{{Name: src, Start: start, Stop: stop}}}
	d.Table.Name = table
	addCol := func(n, t string) {
		for _, c := range d.Table.Columns {
			if c.Name == n {
				return
			}
		}
		d.Table.Columns = append(d.Table.Columns, model.Col{Name: n, Type: t})
	}
	if o.Mode == model.ModeLog {
		for {
			ev := g.Event(g.pick(eventNames), o.Event)
			if hasSelected(ev) {
				d.Event = ev
				break
			}
		}
		for _, in := range d.SelectedInputs() {
			addCol(in.Column, ABIColType(in.Type))
		}
	}
	nf := 0
	if o.MaxFields > 0 {
		nf = g.between(0, o.MaxFields)
	}
	if o.Mode == model.ModeTx && nf == 0 {
		nf = 1
	}
	perm := g.R.Perm(len(o.Fields))
	for _, pi := range perm {
		if nf == 0 {
			break
		}
		f := o.Fields[pi]
		d.Block = append(d.Block, model.Field{Name: f, Column: f})
		addCol(f, FieldType[f])
		nf--
	}
	if o.Mode == model.ModeTrace {
		has := false
		for _, f := range d.Block {
			if strings.HasPrefix(f.Name, "trace_") {
				has = true
			}
		}
		if !has {
			f := g.pick([]string{"trace_action_from", "trace_action_to", "trace_action_value", "trace_action_call_type"})
			d.Block = append(d.Block, model.Field{Name: f, Column: f})
			addCol(f, FieldType[f])
		}
	}
	if o.AddrFilter && o.Mode == model.ModeLog && len(o.Addrs) > 0 {
		k := g.between(1, min(2, len(o.Addrs)))
		var args []string
		for _, pi := range g.R.Perm(len(o.Addrs))[:k] {
			args = append(args, o.Addrs[pi])
		}
		found := false
		for i := range d.Block {
			if d.Block[i].Name == "log_addr" {
				d.Block[i].Filter = &model.Filter{Op: "contains", Arg: args}
				found = true
			}
		}
		if !found {
			d.Block = append(d.Block, model.Field{Name: "log_addr", Column: "log_addr", Filter: &model.Filter{Op: "contains", Arg: args}})
			addCol("log_addr", "bytea")
		}
	}
	return d
}

// Decoys derives decoy events from a declared one: other name, and the same
// signature with a different indexed layout.
func (g *G) Decoys(ev *model.Event) []EventSpec {
	var out []EventSpec
	other := *ev
	other.Name = ev.Name + "X"
	other.Inputs = append([]model.Input(nil), ev.Inputs...)
	out = append(out, EventSpec{Event: &other, Decoy: true})
	flip := *ev
	flip.Inputs = append([]model.Input(nil), ev.Inputs...)
	for i := range flip.Inputs {
		in := flip.Inputs[i]
		if in.Type != "tuple" && !strings.HasSuffix(in.Type, "]") && in.Type != "bytes" && in.Type != "string" {
			in.Indexed = !in.Indexed
			flip.Inputs[i] = in
			n := 0
			for _, x := range flip.Inputs {
				if x.Indexed {
					n++
				}
			}
			if n <= 3 {
				out = append(out, EventSpec{Event: &flip, Decoy: true})
			}
			break
		}
	}
	return out
}

var logSafeFields = []string{"block_hash", "tx_hash", "log_addr", "block_time", "tx_signer", "tx_to", "tx_value", "tx_input", "tx_nonce", "tx_type"}
var txSafeFields = []string{"block_hash", "block_time", "tx_hash", "tx_signer", "tx_to", "tx_value", "tx_input", "tx_nonce", "tx_type", "tx_max_priority_fee_per_gas", "tx_max_fee_per_gas"}
var traceSafeFields = []string{"trace_action_from", "trace_action_to", "trace_action_value", "trace_action_call_type", "tx_hash"}

const allHTTPKinds = 1<<hfConnErr | 1<<hfStatus | 1<<hfTruncated | 1<<hfNonJSON | 1<<hfRPCError | 1<<hfNullResult | 1<<hfStall

// basePlan builds a one-source plan skeleton.
func (g *G) basePlan(prop string, seed uint64) *Plan {
	p := &Plan{Prop: prop, Seed: seed, Checks: map[string]bool{}}
	sp := SourcePlan{Name: "s0", ChainID: uint64(g.between(1, 9999)), NURLs: g.between(1, 2), Batch: g.between(1, 12), Conc: g.between(1, 6),
		PollMs: g.pickInt([]int{100, 250, 500, 1000}), InitLen: g.between(12, 50)}
	p.Sources = []SourcePlan{sp}
	p.Content = ContentPlan{TxMax: 3, LogMax: 3, TraceMax: 2, EmptyPct: 20}
	for i := 0; i < 4; i++ {
		p.Content.Addrs = append(p.Content.Addrs, g.addr())
	}
	p.MaxSteps = 4000
	return p
}

func (g *G) pickInt(xs []int) int { return xs[g.R.IntN(len(xs))] }

func (g *G) transientFaults(p *Plan) {
	f := &p.Faults
	f.HTTPKinds = 0
	for k := 1; k < hfN; k++ {
		if g.chance(60) {
			f.HTTPKinds |= 1 << k
		}
	}
	if g.chance(70) {
		f.HTTPPerMille = g.between(5, 120)
	}
	if g.chance(70) {
		f.PGPerMille = g.between(5, 100)
	}
	f.LostAck = g.chance(50)
	f.Stall = g.chance(40)
	if f.Stall {
		f.JumpPerMille = 25
	}
	f.GrowPerMille = g.pickInt([]int{0, 10, 30, 60})
	f.MaxGrow = g.between(0, 30)
	f.HealAt = g.between(100, 1200)
}

// GenC01 — growth-only chain, 1–2 independent integrations of random shape,
// transient HTTP/PG faults until the heal point.
func GenC01(seed uint64) *Plan {
	g := NewG(seed)
	p := g.basePlan("C01", seed)
	sp := &p.Sources[0]
	if sp.Batch < sp.Conc && !g.chance(15) {
		// batch_size < concurrency is in the property's domain; sampled, not dominant
		sp.Batch, sp.Conc = sp.Conc, sp.Batch
	}
	nd := g.between(1, 2)
	for i := 0; i < nd; i++ {
		mode := model.ModeLog
		switch r := g.R.IntN(100); {
		case r < 25:
			mode = model.ModeTx
		case r < 40:
			mode = model.ModeTrace
		}
		start := uint64(g.between(1, sp.InitLen-1))
		if g.chance(15) {
			start = 0
		}
		o := DeclOpts{Mode: mode, MaxFields: 4, Addrs: p.Content.Addrs, AddrFilter: g.chance(40),
			Event: EventOpts{MaxInputs: 5, AllowDynamic: true, AllowArray: true, AllowTuple: true, SafeIndexedSel: true, NoBoolArray: true}}
		switch mode {
		case model.ModeLog:
			o.Fields = logSafeFields
		case model.ModeTx:
			o.Fields = txSafeFields
		case model.ModeTrace:
			o.Fields = traceSafeFields
			p.Content.MinTx, p.Content.MinTraces = 1, 1
		}
		d := g.Decl(fmt.Sprintf("ig%d", i), fmt.Sprintf("t_ig%d", i), sp.Name, start, 0, o)
		p.Decls = append(p.Decls, d)
		if d.Event != nil {
			p.Content.Events = append(p.Content.Events, EventSpec{Event: d.Event})
			p.Content.Events = append(p.Content.Events, g.Decoys(d.Event)...)
		}
	}
	if len(p.Content.Events) == 0 {
		ev := g.Event("Noise", EventOpts{MaxInputs: 3})
		p.Content.Events = append(p.Content.Events, EventSpec{Event: ev, Decoy: true})
	}
	g.transientFaults(p)
	return p
}
