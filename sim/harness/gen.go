package harness

import (
	"encoding/hex"
	"encoding/json"
	"fmt"
	"math/rand/v2"
	"os"
	"strings"

	"verifsim/model"
)

// FieldType gives the column type used for each selectable field name.
var FieldType = map[string]string{
	"ig_name": "text", "src_name": "text", "chain_id": "numeric",
	"block_hash": "bytea", "block_num": "numeric", "block_time": "numeric",
	"tx_hash": "bytea", "tx_idx": "int", "tx_signer": "bytea", "tx_to": "bytea",
	"tx_value": "numeric", "tx_input": "bytea", "tx_type": "int", "tx_nonce": "numeric",
	"tx_status": "int", "tx_gas_used": "numeric", "tx_gas_price": "numeric",
	"tx_effective_gas_price": "numeric", "tx_contract_address": "bytea",
	"tx_max_priority_fee_per_gas": "numeric", "tx_max_fee_per_gas": "numeric",
	"log_idx": "int", "log_addr": "bytea", "abi_idx": "int2",
	"trace_action_idx": "int2", "trace_action_call_type": "text",
	"trace_action_from": "bytea", "trace_action_to": "bytea", "trace_action_value": "numeric",
}

// ABIColType maps an ABI elementary type to the column type used for it.
func ABIColType(t string) string {
	if i := strings.Index(t, "["); i >= 0 {
		t = t[:i]
	}
	switch {
	case strings.HasPrefix(t, "uint"), strings.HasPrefix(t, "int"):
		return "numeric"
	case t == "bool":
		return "bool"
	case t == "string":
		return "text"
	}
	return "bytea"
}

type G struct {
	refStops bool // depGraph may give a referenced integration an early stop
	R        *rand.Rand
}

func NewG(seed uint64) *G { return &G{R: rand.New(rand.NewPCG(seed, seed*0x9e3779b97f4a7c15+1))} }

func (g *G) pick(xs []string) string { return xs[g.R.IntN(len(xs))] }
func (g *G) between(a, b int) int    { return a + g.R.IntN(b-a+1) }
func (g *G) chance(pct int) bool     { return g.R.IntN(100) < pct }

var staticTypes = []string{"uint256", "uint8", "uint64", "uint128", "uint32", "int256", "int8", "int64", "int24", "address", "bool", "bytes32", "bytes4"}
var eventNames = []string{"Transfer", "Swap", "Deposit", "Mint", "Sync", "Approval"}

func (g *G) addr() string { return "0x" + hex.EncodeToString(randBytes(g.R, 20)) }

// EventOpts controls the shape of generated events.
type EventOpts struct {
	MaxInputs      int
	AllowDynamic   bool // bytes / string non-indexed inputs
	AllowArray     bool // one selected array of static elements
	AllowTuple     bool
	SafeIndexedSel bool // no unselected indexed input before a selected indexed one
	AllSelected    bool
	MinSelected    int
	NoBoolArray    bool // avoid bool[] (open C11 finding: array element type mapping)
	// AllowTupleArray: the one selected array may be a tuple[] / tuple[k] of
	// static components, selected inside the tuple
	AllowTupleArray bool
}

// Event generates an event and marks selected inputs with column names.
func (g *G) Event(name string, o EventOpts) *model.Event {
	n := g.between(1, max(o.MaxInputs, 1))
	ev := &model.Event{Name: name, Type: "event"}
	nIdx := 0
	usedArray := false
	for i := 0; i < n; i++ {
		in := model.Input{Name: fmt.Sprintf("a%d", i)}
		kind := g.R.IntN(10)
		switch {
		case kind < 6 || (!o.AllowDynamic && !o.AllowArray && !o.AllowTuple):
			in.Type = g.pick(staticTypes)
			if nIdx < 3 && g.chance(40) {
				in.Indexed = true
				nIdx++
			}
		case kind < 8 && o.AllowDynamic:
			in.Type = g.pick([]string{"bytes", "string"})
		case kind < 9 && o.AllowTupleArray && !usedArray && g.chance(50):
			in.Type = g.pick([]string{"tuple[]", "tuple[]", "tuple[2]"})
			for k := 0; k < g.between(1, 3); k++ {
				in.Components = append(in.Components, model.Input{Name: fmt.Sprintf("a%dc%d", i, k), Type: g.pick(staticTypes)})
			}
			usedArray = true
		case kind < 9 && o.AllowArray && !usedArray:
			el := g.pick(staticTypes)
			for o.NoBoolArray && el == "bool" {
				el = g.pick(staticTypes)
			}
			if g.chance(50) {
				in.Type = el + "[]"
			} else {
				in.Type = fmt.Sprintf("%s[%d]", el, g.between(1, 3))
			}
			usedArray = true
		case o.AllowTuple:
			in.Type = "tuple"
			for k := 0; k < g.between(1, 3); k++ {
				c := model.Input{Name: fmt.Sprintf("a%dc%d", i, k), Type: g.pick(staticTypes)}
				if o.AllowDynamic && g.chance(25) {
					c.Type = g.pick([]string{"bytes", "string"})
				}
				in.Components = append(in.Components, c)
			}
		default:
			in.Type = g.pick(staticTypes)
		}
		ev.Inputs = append(ev.Inputs, in)
	}
	// selection
	nsel := 0
	var sel func(in *model.Input, force bool)
	sel = func(in *model.Input, force bool) {
		if strings.HasPrefix(in.Type, "tuple") {
			for k := range in.Components {
				sel(&in.Components[k], force)
			}
			return
		}
		if force || o.AllSelected || g.chance(60) {
			in.Column = "c_" + in.Name
			nsel++
		}
	}
	for i := range ev.Inputs {
		sel(&ev.Inputs[i], false)
	}
	for nsel < max(o.MinSelected, 1) {
		i := g.R.IntN(len(ev.Inputs))
		if ev.Inputs[i].Column == "" && !strings.HasPrefix(ev.Inputs[i].Type, "tuple") {
			sel(&ev.Inputs[i], true)
		} else if strings.HasPrefix(ev.Inputs[i].Type, "tuple") {
			sel(&ev.Inputs[i], true)
		} else if nsel >= 1 && o.MinSelected <= 1 {
			break
		}
		if nsel >= len(ev.Inputs) {
			break
		}
	}
	if o.SafeIndexedSel {
		// once an indexed input is unselected, unselect every later indexed one
		seenUnsel := false
		for i := range ev.Inputs {
			in := &ev.Inputs[i]
			if !in.Indexed {
				continue
			}
			if in.Column == "" {
				seenUnsel = true
			} else if seenUnsel {
				in.Column = ""
				nsel--
			}
		}
		if nsel <= 0 {
			// make the first input selected (it precedes every unselected indexed input)
			for i := range ev.Inputs {
				if !strings.HasPrefix(ev.Inputs[i].Type, "tuple") {
					ev.Inputs[i].Column = "c_" + ev.Inputs[i].Name
					// re-run the rule
					seenUnsel = false
					for k := range ev.Inputs {
						in := &ev.Inputs[k]
						if !in.Indexed {
							continue
						}
						if in.Column == "" {
							seenUnsel = true
						} else if seenUnsel {
							in.Column = ""
						}
					}
					break
				}
			}
		}
	}
	return ev
}

func hasSelected(ev *model.Event) bool {
	d := model.Decl{Event: ev}
	return len(d.SelectedInputs()) > 0
}

// DeclOpts controls declaration generation.
type DeclOpts struct {
	Mode       model.Mode
	Event      EventOpts
	Fields     []string // candidate extra fields
	MaxFields  int
	AddrFilter bool
	Addrs      []string
}

func (g *G) Decl(name, table, src string, start, stop uint64, o DeclOpts) *model.Decl {
	d := &model.Decl{Name: name, Enabled: true, Sources: []model.SrcRef{{Name: src, Start: start, Stop: stop}}}
	d.Table.Name = table
	addCol := func(n, t string) {
		for _, c := range d.Table.Columns {
			if c.Name == n {
				return
			}
		}
		d.Table.Columns = append(d.Table.Columns, model.Col{Name: n, Type: t})
	}
	if o.Mode == model.ModeLog {
		for {
			ev := g.Event(g.pick(eventNames), o.Event)
			if hasSelected(ev) {
				d.Event = ev
				break
			}
		}
		for _, in := range d.SelectedInputs() {
			addCol(in.Column, ABIColType(in.Type))
		}
	}
	nf := 0
	if o.MaxFields > 0 {
		nf = g.between(0, o.MaxFields)
	}
	if o.Mode == model.ModeTx && nf == 0 {
		nf = 1
	}
	perm := g.R.Perm(len(o.Fields))
	for _, pi := range perm {
		if nf == 0 {
			break
		}
		f := o.Fields[pi]
		d.Block = append(d.Block, model.Field{Name: f, Column: f})
		addCol(f, FieldType[f])
		nf--
	}
	if o.Mode == model.ModeTrace {
		has := false
		for _, f := range d.Block {
			if strings.HasPrefix(f.Name, "trace_") {
				has = true
			}
		}
		if !has {
			f := g.pick([]string{"trace_action_from", "trace_action_to", "trace_action_value", "trace_action_call_type"})
			d.Block = append(d.Block, model.Field{Name: f, Column: f})
			addCol(f, FieldType[f])
		}
	}
	if o.AddrFilter && o.Mode == model.ModeLog && len(o.Addrs) > 0 {
		k := g.between(1, min(2, len(o.Addrs)))
		var args []string
		for _, pi := range g.R.Perm(len(o.Addrs))[:k] {
			args = append(args, o.Addrs[pi])
		}
		found := false
		for i := range d.Block {
			if d.Block[i].Name == "log_addr" {
				d.Block[i].Filter = &model.Filter{Op: "contains", Arg: args}
				found = true
			}
		}
		if !found {
			d.Block = append(d.Block, model.Field{Name: "log_addr", Column: "log_addr", Filter: &model.Filter{Op: "contains", Arg: args}})
			addCol("log_addr", "bytea")
		}
	}
	return d
}

// Decoys derives decoy events from a declared one: other name, and the same
// signature with a different indexed layout.
func (g *G) Decoys(ev *model.Event) []EventSpec {
	var out []EventSpec
	other := *ev
	other.Name = ev.Name + "X"
	other.Inputs = append([]model.Input(nil), ev.Inputs...)
	out = append(out, EventSpec{Event: &other, Decoy: true})
	flip := *ev
	flip.Inputs = append([]model.Input(nil), ev.Inputs...)
	for i := range flip.Inputs {
		in := flip.Inputs[i]
		if in.Type != "tuple" && !strings.HasSuffix(in.Type, "]") && in.Type != "bytes" && in.Type != "string" {
			in.Indexed = !in.Indexed
			flip.Inputs[i] = in
			n := 0
			for _, x := range flip.Inputs {
				if x.Indexed {
					n++
				}
			}
			if n <= 3 {
				out = append(out, EventSpec{Event: &flip, Decoy: true})
			}
			break
		}
	}
	return out
}

var logSafeFields = []string{"block_hash", "tx_hash", "log_addr", "block_time", "tx_signer", "tx_to", "tx_value", "tx_input", "tx_nonce", "tx_type"}
var txSafeFields = []string{"block_hash", "block_time", "tx_hash", "tx_signer", "tx_to", "tx_value", "tx_input", "tx_nonce", "tx_type", "tx_max_priority_fee_per_gas", "tx_max_fee_per_gas"}
var traceSafeFields = []string{"trace_action_from", "trace_action_to", "trace_action_value", "trace_action_call_type", "tx_hash"}

const allHTTPKinds = 1<<hfConnErr | 1<<hfStatus | 1<<hfTruncated | 1<<hfNonJSON | 1<<hfRPCError | 1<<hfNullResult | 1<<hfStall

// basePlan builds a one-source plan skeleton.
func (g *G) basePlan(prop string, seed uint64) *Plan {
	p := &Plan{Prop: prop, Seed: seed, Checks: map[string]bool{}}
	sp := SourcePlan{Name: "s0", ChainID: uint64(g.between(1, 9999)), NURLs: g.between(1, 2), Batch: g.between(1, 12), Conc: g.between(1, 6),
		PollMs: g.pickInt([]int{100, 250, 500, 1000}), InitLen: g.between(12, 50)}
	if sp.NURLs > 1 && g.chance(60) {
		sp.LagMax = g.between(1, 3)
	}
	if g.chance(2) {
		// a chain id beyond 31 bits (such chains exist; known finding F35)
		sp.ChainID = 11297108109
	}
	if g.chance(12) {
		// a large batch (more blocks per step and per partition than any small
		// constant) on a chain long enough to fill it
		sp.Batch = g.between(13, 40)
		sp.InitLen = max(sp.InitLen, g.between(30, 70))
	}
	// heads pushed over a websocket subscription instead of being polled
	sp.WS = g.chance(20) && os.Getenv("VERIF_NO_WS") == ""
	if g.chance(25) {
		// position rows pruned in the background
		p.Prune = &PrunePlan{Keep: g.pickInt([]int{1, 2, 3, 5, 8, 200}), EveryMs: g.pickInt([]int{500, 2000, 10000})}
	}
	p.Checks["quoted_numbers"] = g.chance(25)
	p.Sources = []SourcePlan{sp}
	p.Content = ContentPlan{TxMax: 3, LogMax: 3, TraceMax: 2, EmptyPct: 20}
	for i := 0; i < 4; i++ {
		p.Content.Addrs = append(p.Content.Addrs, g.addr())
	}
	if g.chance(10) {
		// busy blocks: many transactions and logs per block
		p.Content.TxMax, p.Content.LogMax = g.between(5, 7), g.between(8, 12)
	}
	p.MaxSteps = 4000
	return p
}

func (g *G) pickInt(xs []int) int { return xs[g.R.IntN(len(xs))] }

func (g *G) transientFaults(p *Plan) {
	f := &p.Faults
	f.HTTPKinds = 0
	for k := 1; k < hfN; k++ {
		if g.chance(60) {
			f.HTTPKinds |= 1 << k
		}
	}
	if g.chance(70) {
		f.HTTPPerMille = g.between(5, 120)
	}
	if g.chance(70) {
		f.PGPerMille = g.between(5, 100)
	}
	f.LostAck = g.chance(50)
	if g.chance(25) {
		f.EarlyRefuseEvery = g.between(10, 60)
	}
	f.Stall = g.chance(40)
	if f.Stall {
		f.JumpPerMille = 25
	}
	f.GrowPerMille = g.pickInt([]int{0, 10, 30, 60})
	f.MaxGrow = g.between(0, 30)
	f.HealAt = g.between(100, 1200)
}

// GenC01 — growth-only chain, 1–2 independent integrations of random shape,
// transient HTTP/PG faults until the heal point.
func GenC01(seed uint64) *Plan {
	g := NewG(seed)
	p := g.basePlan("C01", seed)
	sp := &p.Sources[0]
	if sp.Batch < sp.Conc && !g.chance(15) {
		// batch_size < concurrency is in the property's domain; sampled, not dominant
		sp.Batch, sp.Conc = sp.Conc, sp.Batch
	}
	nd := g.between(1, 2)
	for i := 0; i < nd; i++ {
		mode := model.ModeLog
		switch r := g.R.IntN(100); {
		case r < 25:
			mode = model.ModeTx
		case r < 40:
			mode = model.ModeTrace
		}
		start := uint64(g.between(1, sp.InitLen-1))
		if g.chance(15) {
			start = 0
		}
		o := DeclOpts{Mode: mode, MaxFields: 4, Addrs: p.Content.Addrs, AddrFilter: g.chance(40),
			Event: EventOpts{MaxInputs: 5, AllowDynamic: true, AllowArray: true, AllowTuple: true, SafeIndexedSel: true, NoBoolArray: true}}
		switch mode {
		case model.ModeLog:
			o.Fields = logSafeFields
		case model.ModeTx:
			o.Fields = txSafeFields
		case model.ModeTrace:
			o.Fields = traceSafeFields
			p.Content.MinTx, p.Content.MinTraces = 1, 1
		}
		d := g.Decl(fmt.Sprintf("ig%d", i), fmt.Sprintf("t_ig%d", i), sp.Name, start, 0, o)
		p.Decls = append(p.Decls, d)
		if d.Event != nil {
			p.Content.Events = append(p.Content.Events, EventSpec{Event: d.Event})
			p.Content.Events = append(p.Content.Events, g.Decoys(d.Event)...)
		}
	}
	if len(p.Content.Events) == 0 {
		ev := g.Event("Noise", EventOpts{MaxInputs: 3})
		p.Content.Events = append(p.Content.Events, EventSpec{Event: ev, Decoy: true})
	}
	g.transientFaults(p)
	p.SharedPool = g.chance(20)
	return p
}

// chainFaults enables chain growth and reorgs.
func (g *G) reorgFaults(p *Plan, maxDepth int) {
	f := &p.Faults
	f.ReorgPerMille = g.pickInt([]int{5, 15, 30})
	f.MaxReorgDepth = maxDepth
	f.MaxReorgs = g.between(1, 5)
	f.MidBatchPM = g.pickInt([]int{0, 50, 200})
	if f.GrowPerMille == 0 {
		f.GrowPerMille = 20
	}
	if f.MaxGrow < 10 {
		f.MaxGrow = 25
	}
}

// hashedDecl forces a declaration whose data plan includes block hashes: it
// selects block_time, which only eth_getBlockByNumber supplies.
func (g *G) hashedDecl(d *model.Decl) {
	for _, f := range d.Block {
		if f.Name == "block_time" {
			return
		}
	}
	d.Block = append(d.Block, model.Field{Name: "block_time", Column: "block_time"})
	d.Table.Columns = append(d.Table.Columns, model.Col{Name: "block_time", Type: "numeric"})
}

func (g *G) randomDecl(p *Plan, i int, table string, start, stop uint64, modes []int) *model.Decl {
	sp := &p.Sources[0]
	mode := model.ModeLog
	r := g.R.IntN(100)
	switch {
	case r < modes[0]:
		mode = model.ModeTx
	case r < modes[0]+modes[1]:
		mode = model.ModeTrace
	}
	o := DeclOpts{Mode: mode, MaxFields: 4, Addrs: p.Content.Addrs, AddrFilter: g.chance(40),
		Event: EventOpts{MaxInputs: 5, AllowDynamic: true, AllowArray: true, AllowTuple: true, SafeIndexedSel: true, NoBoolArray: true}}
	switch mode {
	case model.ModeLog:
		o.Fields = logSafeFields
	case model.ModeTx:
		o.Fields = txSafeFields
	case model.ModeTrace:
		o.Fields = traceSafeFields
		p.Content.MinTx, p.Content.MinTraces = 1, 1
	}
	d := g.Decl(fmt.Sprintf("ig%d", i), table, sp.Name, start, stop, o)
	if d.Event != nil {
		p.Content.Events = append(p.Content.Events, EventSpec{Event: d.Event})
		p.Content.Events = append(p.Content.Events, g.Decoys(d.Event)...)
	}
	return d
}

func (g *G) ensureEvents(p *Plan) {
	if len(p.Content.Events) == 0 {
		ev := g.Event("Noise", EventOpts{MaxInputs: 3})
		p.Content.Events = append(p.Content.Events, EventSpec{Event: ev, Decoy: true})
	}
}

// GenC03 — reorgs of any depth within the retained history, landing at
// arbitrary scheduler steps (also inside batches), 1-3 integrations sharing
// one source client, all batch sizes; every declaration selects block_time so
// that its data plan includes block hashes.
func GenC03(seed uint64) *Plan {
	g := NewG(seed)
	p := g.basePlan("C03", seed)
	sp := &p.Sources[0]
	nd := g.between(1, 3)
	for i := 0; i < nd; i++ {
		start := uint64(g.between(1, sp.InitLen-1))
		d := g.randomDecl(p, i, fmt.Sprintf("t_ig%d", i), start, 0, []int{25, 15})
		if d.Mode() != model.ModeTrace || g.chance(50) {
			// (a trace declaration always needs the transaction index, which
			// comes with full blocks: its data plan has the hashes as it stands)
			g.hashedDecl(d)
		}
		p.Decls = append(p.Decls, d)
	}
	g.ensureEvents(p)
	if g.chance(50) {
		g.transientFaults(p)
	} else {
		p.Faults.HealAt = g.between(150, 1000)
		p.Faults.GrowPerMille = 30
		p.Faults.MaxGrow = 30
	}
	g.reorgFaults(p, g.between(1, 6))
	p.Checks["settle"] = true
	// "whatever batch size was in effect when the orphaned blocks were
	// written": some runs restart the process with other source settings
	if g.chance(35) {
		p.Faults.CrashPerMille = g.pickInt([]int{3, 8, 15})
		p.Faults.Reconfig = true
	}
	p.SharedPool = g.chance(20)
	if g.chance(25) {
		// head-following mode: a short chain, slow growth and frequent shallow
		// replacements (often of the head block at the same height), several
		// integrations on the one client: steps end at the head while the head
		// cache and the segment caches hold data of the replaced block
		sp.InitLen = g.between(8, 14)
		for _, d := range p.Decls {
			if d.Sources[0].Start > uint64(sp.InitLen-2) {
				d.Sources[0].Start = uint64(g.between(1, sp.InitLen-2))
			}
		}
		for len(p.Decls) < 2 {
			d := g.randomDecl(p, len(p.Decls), fmt.Sprintf("t_ig%d", len(p.Decls)), uint64(g.between(1, sp.InitLen-2)), 0, []int{25, 0})
			g.hashedDecl(d)
			p.Decls = append(p.Decls, d)
		}
		f := &p.Faults
		f.MaxReorgDepth = g.between(1, 2)
		f.ReorgPerMille = g.pickInt([]int{20, 40})
		f.MaxReorgs = g.between(10, 30)
		f.GrowPerMille = 12
		f.MaxGrow = 30
		f.HealAt = g.between(800, 2500)
		f.HTTPPerMille = min(f.HTTPPerMille, 25)
		f.PGPerMille = min(f.PGPerMille, 25)
		sp.Batch = g.between(1, 3)
		sp.Conc = g.between(1, sp.Batch)
	}
	return p
}

// GenC04 — 2-4 pairs: shared or separate tables, one or two sources, same or
// different events and address filters; growth, reorgs, process crashes.
func GenC04(seed uint64) *Plan {
	g := NewG(seed)
	p := g.basePlan("C04", seed)
	if g.chance(40) {
		s2 := p.Sources[0]
		s2.Name = "s1"
		s2.ChainID = uint64(g.between(1, 9999))
		s2.Batch, s2.Conc = g.between(1, 8), g.between(1, 3)
		if s2.Batch < s2.Conc {
			s2.Batch, s2.Conc = s2.Conc, s2.Batch
		}
		s2.InitLen = g.between(12, 40)
		if g.chance(35) {
			// two sources of one chain (two providers, or a backfill split)
			s2.ChainID = p.Sources[0].ChainID
		}
		p.Sources = append(p.Sources, s2)
	}
	if len(p.Sources) > 1 && g.chance(30) {
		// one dependency graph (referenced integrations and a dependent with
		// lookups) running on both sources: every integration has two tasks
		// that are in their inserts and lookups at the same time
		g.depGraph(p, uint64(g.between(4, 10)), 0)
		for _, d := range p.Decls {
			d.Sources = append(d.Sources, model.SrcRef{Name: p.Sources[1].Name, Start: d.Sources[0].Start})
		}
		if len(p.Decls) == 3 && g.chance(40) {
			// the first referenced integration only indexes the second source:
			// on the first source the dependent has nothing to wait for that
			// will ever come, and must do nothing there
			p.Decls[0].Sources = p.Decls[0].Sources[1:]
		}
		p.Idle = nil
		p.Checks["deps"] = true
		g.transientFaults(p)
		p.Faults.Stall, p.Faults.JumpPerMille = false, 0
		p.SharedPool = g.chance(40)
		p.Checks["permute_integrations"] = true
		return p
	}
	nd := g.between(2, 3)
	var first *model.Decl
	// decided first: an integration that has reached its stop is finished
	// (C06: writes nothing afterwards) and does not follow later replacements,
	// so stops are only configured on histories without replaced blocks
	withReorgs := g.chance(60)
	for i := 0; i < nd; i++ {
		src := p.Sources[g.R.IntN(len(p.Sources))]
		start := uint64(g.between(1, src.InitLen-1))
		var d *model.Decl
		if first != nil && g.chance(50) {
			// same table, same shape, different name (and maybe another address filter)
			d = cloneDecl(first)
			d.Name = fmt.Sprintf("ig%d", i)
			d.Sources = []model.SrcRef{{Name: src.Name, Start: start}}
			if !withReorgs && g.chance(60) && len(first.Sources) > 0 {
				// same source and start as the first integration but a stop
				// inside its first batches: the two ask the shared caches for
				// ranges with the same start and different lengths
				fs := first.Sources[0]
				for _, sp2 := range p.Sources {
					if sp2.Name == fs.Name {
						d.Sources = []model.SrcRef{{Name: fs.Name, Start: fs.Start, Stop: fs.Start + uint64(g.between(0, 2*max(sp2.Batch, 2)))}}
					}
				}
			}
			if g.chance(50) {
				for k := range d.Block {
					if d.Block[k].Name == "log_addr" && d.Block[k].Filter != nil {
						d.Block[k].Filter = &model.Filter{Op: "contains", Arg: []string{p.Content.Addrs[g.R.IntN(len(p.Content.Addrs))]}}
					}
				}
			}
		} else {
			d = g.randomDecl(p, i, fmt.Sprintf("t_ig%d", i), start, 0, []int{25, 0})
			d.Sources[0].Name = src.Name
			if g.chance(25) {
				// the table definition spells out the stamp and identity columns
				// (no block entries for them: the fields that write them are the
				// automatically required ones)
				for _, idc := range []string{"ig_name", "src_name", "block_num", "tx_idx"} {
					if g.chance(70) {
						d.Table.Columns = append(d.Table.Columns, model.Col{Name: idc, Type: FieldType[idc]})
					}
				}
			}
			if first == nil {
				first = d
			}
		}
		if g.chance(60) {
			g.hashedDecl(d)
		}
		// an integration may run on both sources
		if len(p.Sources) > 1 && g.chance(30) {
			other := p.Sources[0]
			if other.Name == d.Sources[0].Name {
				other = p.Sources[1]
			}
			d.Sources = append(d.Sources, model.SrcRef{Name: other.Name, Start: uint64(g.between(1, other.InitLen-1))})
		}
		p.Decls = append(p.Decls, d)
	}
	g.ensureEvents(p)
	g.transientFaults(p)
	if withReorgs {
		g.reorgFaults(p, g.between(1, 4))
		// reorg workloads need hashed plans everywhere, otherwise convergence is outside the property
		for _, d := range p.Decls {
			g.hashedDecl(d)
		}
		p.Checks["settle"] = true
	}
	p.Faults.CrashPerMille = g.pickInt([]int{0, 3, 8})
	p.Faults.Reconfig = g.chance(40)
	// one shared pool and tasks built by the repository's own loadTasks in some
	// runs (ownership is then attributed by stamp, not by connection)
	p.SharedPool = g.chance(40)
	p.Checks["permute_integrations"] = true
	return p
}

func cloneDecl(d *model.Decl) *model.Decl {
	b, _ := json.Marshal(d)
	var n model.Decl
	json.Unmarshal(b, &n)
	return &n
}

// GenC02x — exploration part of C02: random multi-fault sequences including
// process crashes and lost acknowledgements, on growth and reorg histories.
func GenC02x(seed uint64) *Plan {
	g := NewG(seed)
	p := g.basePlan("C02", seed)
	sp := &p.Sources[0]
	nd := g.between(1, 2)
	for i := 0; i < nd; i++ {
		start := uint64(g.between(1, sp.InitLen-1))
		d := g.randomDecl(p, i, fmt.Sprintf("t_ig%d", i), start, 0, []int{25, 10})
		p.Decls = append(p.Decls, d)
	}
	g.ensureEvents(p)
	g.transientFaults(p)
	p.Faults.PGPerMille = g.between(20, 150)
	p.Faults.LostAck = true
	p.Faults.CrashPerMille = g.pickInt([]int{3, 8, 15})
	p.Faults.Reconfig = g.chance(40)
	if g.chance(50) {
		for _, d := range p.Decls {
			g.hashedDecl(d)
		}
		g.reorgFaults(p, g.between(1, 4))
		p.Checks["settle"] = true
	}
	return p
}

// GenC06 — start/stop/resume matrix relative to the head.
func GenC06(seed uint64) *Plan {
	g := NewG(seed)
	p := g.basePlan("C06", seed)
	sp := &p.Sources[0]
	sp.InitLen = g.between(10, 30)
	head := sp.InitLen - 1
	var start, stop uint64
	switch g.R.IntN(7) {
	case 0: // begin at head
		start = 0
	case 1: // before head
		start = uint64(g.between(1, head-1))
	case 2: // at head
		start = uint64(head)
	case 3: // just after head (start-1 == head exists)
		start = uint64(head + 1)
	case 4: // beyond the head: nothing may be written until the chain gets there
		start = uint64(head + g.between(2, 6))
	default:
		start = uint64(g.between(1, head))
	}
	switch g.R.IntN(5) {
	case 0:
		stop = 0
	case 1: // stop == start
		stop = start
	case 2: // stop before head
		if start > 0 && int(start) < head {
			stop = uint64(g.between(int(start), head))
		}
	case 3: // stop after head (reached through growth)
		stop = uint64(head + g.between(1, 8))
	default:
		if start > 0 {
			stop = start + uint64(g.between(0, 2*sp.Batch))
		}
	}
	if start > 0 && stop > 0 && stop < start {
		stop = start
	}
	if start == 0 && stop > 0 && stop < uint64(head) {
		stop = uint64(head + g.between(0, 6))
	}
	if g.chance(30) {
		// the range also binds an integration that waits for others: its
		// target is the smaller of the head and what its references recorded
		g.depGraph(p, start, stop)
		p.Checks["deps"] = true
	} else {
		d := g.randomDecl(p, 0, "t_ig0", start, stop, []int{30, 0})
		p.Decls = append(p.Decls, d)
		if g.chance(30) {
			// a second integration on the same source from the same start with
			// another stop: both read the same cached segments, clipped
			// differently
			stop2 := stop + uint64(g.between(1, 5))
			if stop == 0 || g.chance(30) {
				stop2 = start + uint64(g.between(0, 6))
			}
			d2 := g.randomDecl(p, 1, "t_ig1", start, stop2, []int{30, 0})
			g.hashedDecl(d)
			g.hashedDecl(d2)
			p.Decls = append(p.Decls, d2)
		}
	}
	g.ensureEvents(p)
	p.Faults.HealAt = g.between(100, 600)
	p.Faults.GrowPerMille = g.pickInt([]int{0, 30, 80})
	p.Faults.MaxGrow = g.between(0, 20)
	p.Faults.CrashPerMille = g.pickInt([]int{0, 5, 15})
	if g.chance(40) {
		p.Faults.PGPerMille = g.between(10, 60)
		p.Faults.HTTPPerMille = g.between(10, 60)
		p.Faults.HTTPKinds = 1<<hfConnErr | 1<<hfStatus | 1<<hfRPCError
	}
	p.Checks["range"] = true
	// in a third of the runs the tasks are built by the repository's own
	// loadTasks, so that start and stop travel through the configuration
	// document (numbers, or quoted and zero-padded strings) into the task
	p.SharedPool = g.chance(35)
	return p
}
