package harness

import (
	"math/big"
	"bytes"
	"context"
	"encoding/hex"
	"errors"
	"fmt"
	"strings"
	"sync"
	"testing"
	"testing/synctest"
	"time"

	"verifsim/core"
	"verifsim/fakepg"
	"verifsim/model"
	"verifsim/node"

	"github.com/indexsupply/shovel/eth"
	"github.com/indexsupply/shovel/jrpc2"
	"github.com/indexsupply/shovel/shovel/glf"
)

// C08 — source-side caches are transparent. Client-level harness: 2-6
// concurrent callers of the real caching jrpc2.Client under the strict
// scheduler (HTTP and cache-lock seams), against an unchanging chain for block
// requests and a scripted sequence of head announcements for Latest.

type C08Op struct {
	Kind  string `json:"kind"`  // get | latest
	Flags string `json:"flags"` // get: h | b | hl | bl
	Addr  int    `json:"addr"`  // get with logs: index into the address pool, -1 = no address filter
	Start uint64 `json:"start"`
	Limit uint64 `json:"limit"`
	N     uint64 `json:"n"` // latest: floor
}

type C08Case struct {
	MaxReads int       `json:"max_reads"`
	Callers  [][]C08Op `json:"callers"`
	HeadMode bool      `json:"head_mode"` // chain events allowed (callers only use Latest)
	PollMs   int       `json:"poll_ms"`
}

type c08Actor struct {
	id int
}

type c08Read struct {
	key string
}

type c08State struct {
	mu            sync.Mutex
	sinceFill     map[string]int // successful reads since the last successful upstream fill, per segment key
	faultsOnKey   map[string]int // faults delivered to fetches of a key (monotone counter)
	fills         map[string]int
	headHits      int // consecutive cache-served Latest calls since the last upstream latest answer
	directLatest  int
	latestAnswers int
}

func segKey(full bool, start, limit uint64) string {
	k := "h"
	if full {
		k = "b"
	}
	return fmt.Sprintf("%s/%d/%d", k, start, limit)
}

// RunC08 executes one case.
func RunC08(t *testing.T, plan *Plan, st *core.Stream, extra Extra, keepLog bool) (res *Result) {
	installHooks()
	cs := plan.C08
	res = &Result{Prop: "C08", Seed: plan.Seed, Stats: map[string]int{}, PlanDigest: fmt.Sprintf("maxreads=%d callers=%d headmode=%v", cs.MaxReads, len(cs.Callers), cs.HeadMode)}
	w := &World{t: t, plan: plan, st: st, srcs: map[string]*srcState{}, stats: res.Stats, projCache: map[string][]string{}, scriptFired: map[int]bool{}}
	state := &c08State{sinceFill: map[string]int{}, faultsOnKey: map[string]int{}, fills: map[string]int{}}
	func() {
		defer func() {
			if r := recover(); r != nil {
				if strings.Contains(fmt.Sprint(r), "deadlock: main bubble goroutine has exited") {
					res.Stats["teardown_leftover"]++
					return
				}
				panic(r)
			}
		}()
		synctest.Test(t, func(t *testing.T) {
			w.sched = core.NewSched()
			w.sched.Log.Keep = keepLog
			w.clock = core.NewClock()
			w.srv = fakepg.NewServer()
			theWorld = w
			defer func() { theWorld = nil }()
			sp := plan.Sources[0]
			n := node.New(sp.Name, sp.ChainID, plan.Seed, MakeFiller(plan, sp.Name))
			n.Grow(sp.InitLen)
			w.srcs[sp.Name] = &srcState{plan: sp, node: n}
			w.c08 = state
			url := "http://" + hostFor(sp.Name, 0, 0)
			cl := jrpc2.New(url).WithMaxReads(cs.MaxReads).WithPollDuration(time.Duration(cs.PollMs) * time.Millisecond)
			if sp.WS && cs.HeadMode {
				// heads pushed over a subscription instead of being polled
				cl = cl.WithWSURL("ws://" + hostFor(sp.Name, 0, 0))
				res.Stats["c08_ws_mode"] = 1
			}
			plain := jrpc2.New("http://" + hostFor(sp.Name, 0, 1) + "/?nocache=1") // the uncached reference client
			_ = plain
			var wg sync.WaitGroup
			for ci, ops := range cs.Callers {
				wg.Add(1)
				w.mu.Lock()
				w.actorsLive++
				w.mu.Unlock()
				go func(ci int, ops []C08Op) {
					defer wg.Done()
					defer func() {
						w.mu.Lock()
						w.actorsLive--
						w.mu.Unlock()
					}()
					for oi, op := range ops {
						v, _ := w.sched.Park(nil, "step", fmt.Sprintf("step %06d caller%d", oi, ci), c08Actor{ci})
						if _, stop := v.(stopSignal); stop {
							return
						}
						w.c08Do(cl, url, n, cs, ci, op)
					}
				}(ci, ops)
			}
			w.c08Loop()
			w.teardown()
			res.SimTimeMs = w.clock.Elapsed().Milliseconds()
		})
	}()
	res.Violations = w.viol
	res.HarnessErr = w.harnessErr
	res.Steps = w.step
	res.Decisions = st.Recorded()
	res.NDecisions = len(res.Decisions)
	if w.sched != nil {
		res.LogHash = fmt.Sprintf("%016x", w.sched.Log.Hash())
		if keepLog {
			res.LogTail = w.sched.Log.Tail(1 << 30)
		} else {
			res.LogTail = w.sched.Log.Tail(80)
		}
	}
	res.StateHash = res.LogHash
	res.NonTrivial = res.Stats["c08_cache_served"] > 0 || res.Stats["c08_head_cache_served"] > 0
	return res
}

func (w *World) c08Loop() {
	f := w.plan.Faults
	maxSteps := w.plan.MaxSteps
	idle := 0
	for w.step = 1; w.step <= maxSteps; w.step++ {
		if w.harnessErr != "" {
			return
		}
		if w.sched.Broken != "" {
			w.harnessFail("scheduler: %s", w.sched.Broken)
			return
		}
		if !w.healed && w.step > f.HealAt {
			w.healed = true
		}
		if w.faultsOn() && w.plan.C08.HeadMode {
			wts := []int{1000, 0, 0, 25}
			if w.grown < f.MaxGrow {
				wts[1] = f.GrowPerMille
			}
			if w.reorgs < f.MaxReorgs && f.MaxReorgDepth > 0 {
				wts[2] = f.ReorgPerMille
			}
			switch w.st.Weighted(wts, "action") {
			case 1:
				w.chainGrow(w.plan.Sources[0].Name, 1+w.st.Draw(3, "grow-n"))
				continue
			case 2:
				d := 1 + w.st.Draw(f.MaxReorgDepth, "reorg-depth")
				w.chainReorg(w.plan.Sources[0].Name, d, max(1, d-1+w.st.Draw(3, "reorg-newlen")-1))
				continue
			case 3:
				// simulated time passes (a listener's one-minute deadline, a
				// poller's ticks) while nobody calls
				d := []time.Duration{2 * time.Second, 11 * time.Second, 61 * time.Second}[w.st.Draw(3, "jump")]
				w.logf("jump %v", d)
				w.stat("time_jump", 1)
				time.Sleep(d)
				continue
			}
		}
		lat := []time.Duration{0, time.Millisecond, 40 * time.Millisecond, 300 * time.Millisecond}[w.st.Draw(4, "latency")]
		w.clock.AdvanceTo(w.step, lat)
		synctest.Wait()
		pend := w.sched.Collect()
		w.mu.Lock()
		live := w.actorsLive
		w.mu.Unlock()
		if live == 0 {
			return
		}
		// only the head poller left: callers are done when none is parked or in a call
		if len(pend) == 0 {
			idle++
			if idle > 50 {
				w.harnessFail("c08 scheduler: nothing pending with %d live callers", live)
				return
			}
			select {
			case <-w.sched.Wake():
			case <-time.After(30 * time.Second):
			}
			w.step--
			continue
		}
		idle = 0
		idx := w.st.Draw(len(pend), "pick")
		p := pend[idx]
		if p.Kind == "step" {
			if _, ok := p.Data.(c08Actor); ok {
				w.logf("%s", p.Key)
				w.sched.Release(p, nil)
				synctest.Wait()
				continue
			}
		}
		w.deliver(p)
		synctest.Wait()
	}
	if w.harnessErr == "" {
		w.stat("budget_exhausted", 1)
	}
}

func (w *World) c08Do(cl *jrpc2.Client, url string, n *node.Node, cs *C08Case, ci int, op C08Op) {
	st := w.c08
	ctx := context.Background()
	defer func() {
		if r := recover(); r != nil {
			w.violate(panicClass(r), "caller %d: %s panicked: %v", ci, op.Kind, r)
		}
	}()
	switch op.Kind {
	case "latest":
		st.mu.Lock()
		before := st.directLatest
		st.mu.Unlock()
		num, hash, err := cl.Latest(ctx, url, op.N)
		st.mu.Lock()
		served := st.directLatest == before
		if err == nil && served {
			st.headHits++
		}
		hits := st.headHits
		st.mu.Unlock()
		w.sched.Log.Add("%d caller%d latest(%d) -> %d %x err=%v cache=%v", w.step, ci, op.N, num, short(hash), err != nil, served)
		if err != nil {
			w.stat("c08_latest_error", 1)
			return
		}
		if served {
			w.stat("c08_head_cache_served", 1)
			if hits > cs.MaxReads {
				w.violate("head-cache-overserved", "the cached head served %d successive reads without the source being asked (max reads %d)", hits, cs.MaxReads)
			}
			if op.N > 0 && num < op.N {
				w.violate("head-cache-below-floor", "Latest(%d) was served %d from cache, which is below the caller's floor", op.N, num)
			}
		}
		if !n.Announced[fmt.Sprintf("%d/%x", num, hash)] {
			w.violate("head-not-announced", "Latest returned (%d, %x) which the source never announced", num, short(hash))
		}
	case "get":
		f, addrs := c08Filter(w.plan, op)
		key := segKey(strings.Contains(op.Flags, "b"), op.Start, op.Limit)
		st.mu.Lock()
		faultsBefore := st.faultsOnKey[key] + st.faultsOnKey["logs/"+fmt.Sprint(op.Start, "/", op.Limit)]
		fillsBefore := st.fills[key]
		st.mu.Unlock()
		blocks, err := cl.Get(ctx, url, f, op.Start, op.Limit)
		st.mu.Lock()
		faultsAfter := st.faultsOnKey[key] + st.faultsOnKey["logs/"+fmt.Sprint(op.Start, "/", op.Limit)]
		filled := st.fills[key] != fillsBefore
		if err == nil {
			st.sinceFill[key]++ // total successful reads of this key
		}
		reads := st.sinceFill[key]
		nfills := st.fills[key]
		st.mu.Unlock()
		w.sched.Log.Add("%d caller%d get(%s,%d,%d) err=%v", w.step, ci, op.Flags, op.Start, op.Limit, err != nil)
		if err != nil {
			w.stat("c08_get_error", 1)
			if faultsAfter == faultsBefore {
				w.violate("error-without-fault", "Get(%s,%d,%d) failed (%v) although no fault hit a request for that range during the call: a failed fetch was served from cache, or the cache broke a good one", op.Flags, op.Start, op.Limit, err)
			}
			return
		}
		if !filled {
			w.stat("c08_cache_served", 1)
		}
		// Every successful read consumed one read of some earlier upstream
		// fetch of that segment and a fetch serves at most max-reads reads,
		// so at any moment reads <= fetches x max-reads. (Counting "since
		// the last fetch" at return time would misattribute a reader that
		// obtained its blocks before a newer fetch but returned after it.)
		if reads > nfills*cs.MaxReads {
			w.violate("segment-overserved", "segment %s has served %d reads from %d upstream fetches (max reads %d)", key, reads, nfills, cs.MaxReads)
		}
		if msg := c08Check(n, op, addrs, blocks); msg != "" {
			w.violate("cache-wrong-data", "Get(%s,%d,%d) through the cache: %s", op.Flags, op.Start, op.Limit, msg)
		}
	}
}

func short(b []byte) []byte {
	if len(b) > 4 {
		return b[:4]
	}
	return b
}

func c08Filter(p *Plan, op C08Op) (*glf.Filter, []string) {
	var addrs []string
	if op.Addr >= 0 && op.Addr < len(p.Content.Addrs) {
		addrs = []string{p.Content.Addrs[op.Addr]}
	}
	var needs []string
	if strings.Contains(op.Flags, "b") {
		needs = append(needs, "tx_input")
	} else {
		needs = append(needs, "block_time")
	}
	if strings.Contains(op.Flags, "l") {
		needs = append(needs, "log_addr")
	}
	return glf.New(needs, addrs, [][]string{{"0x" + hex.EncodeToString(model.SigHash(transferEvent()))}}), addrs
}

// c08Check compares a Get result with the node's blocks: numbers, hashes,
// links, transactions (blocks plan) and the logs matching the caller's own
// address/topic filter - none missing, none twice.
func c08Check(n *node.Node, op C08Op, addrs []string, blocks []eth.Block) string {
	if uint64(len(blocks)) != op.Limit {
		return fmt.Sprintf("%d blocks returned, %d requested", len(blocks), op.Limit)
	}
	sig := model.SigHash(transferEvent())
	for i := range blocks {
		b := &blocks[i]
		nb := n.Canonical(op.Start + uint64(i))
		if nb == nil {
			return "block beyond the chain"
		}
		if b.Num() != nb.Num || !bytes.Equal(b.Header.Hash, nb.Hash) || !bytes.Equal(b.Header.Parent, nb.Parent) || uint64(b.Header.Time) != nb.Time {
			return fmt.Sprintf("block %d: header differs from the source's", nb.Num)
		}
		if strings.Contains(op.Flags, "b") {
			for ti := range nb.Txs {
				nt := &nb.Txs[ti]
				var gt *eth.Tx
				for k := range b.Txs {
					if uint64(b.Txs[k].Idx) == nt.Idx {
						gt = &b.Txs[k]
					}
				}
				if gt == nil || !bytes.Equal(gt.Data, nt.Input) || !bytes.Equal(gt.From, nt.From) {
					return fmt.Sprintf("block %d tx %d: missing or changed", nb.Num, nt.Idx)
				}
				// every other field of the transaction as the source reported it
				if !bytes.Equal(gt.To, nt.To) || uint64(gt.Nonce) != nt.Nonce || uint64(gt.Type) != uint64(nt.Type) ||
					gt.Value.ToBig().Cmp(bigOrZero(nt.Value)) != 0 || gt.GasPrice.ToBig().Cmp(bigOrZero(nt.GasPrice)) != 0 ||
					gt.MaxFeePerGas.ToBig().Cmp(bigOrZero(nt.MaxFee)) != 0 || gt.MaxPriorityFeePerGas.ToBig().Cmp(bigOrZero(nt.MaxPrio)) != 0 {
					return fmt.Sprintf("block %d tx %d: a transaction field differs from the source's (to/nonce/type/value/gas price/fee caps)", nb.Num, nt.Idx)
				}
			}
		}
		if strings.Contains(op.Flags, "l") {
			match := func(addr []byte, topics [][]byte) bool {
				if len(topics) == 0 || !bytes.Equal(topics[0], sig) {
					return false
				}
				if len(addrs) == 0 {
					return true
				}
				for _, a := range addrs {
					if strings.EqualFold(strings.TrimPrefix(a, "0x"), hex.EncodeToString(addr)) {
						return true
					}
				}
				return false
			}
			want := map[string]bool{}
			for ti := range nb.Txs {
				for _, l := range nb.Txs[ti].Logs {
					if match(l.Addr, l.Topics) {
						want[fmt.Sprintf("%d/%d/%x", nb.Txs[ti].Idx, l.Idx, l.Data)] = true
					}
				}
			}
			got := map[string]bool{}
			for k := range b.Txs {
				for _, l := range b.Txs[k].Logs {
					var ts [][]byte
					for _, t := range l.Topics {
						ts = append(ts, t)
					}
					if !match(l.Address, ts) {
						continue
					}
					key := fmt.Sprintf("%d/%d/%x", b.Txs[k].Idx, l.Idx, []byte(l.Data))
					if got[key] {
						return fmt.Sprintf("block %d: log %d attached twice", nb.Num, l.Idx)
					}
					got[key] = true
				}
			}
			for k := range want {
				if !got[k] {
					return fmt.Sprintf("block %d: a log matching the caller's filter is missing (%s)", nb.Num, k)
				}
			}
			for k := range got {
				if !want[k] {
					return fmt.Sprintf("block %d: a log the source does not have is attached (%s)", nb.Num, k)
				}
			}
		}
	}
	return ""
}

// c08Observe is called by serveHTTP for every delivered exchange.
func (w *World) c08Observe(ev *httpEvent, kind int, poller bool) {
	st := w.c08
	if st == nil {
		return
	}
	st.mu.Lock()
	defer st.mu.Unlock()
	k := exchKind(ev.reqs)
	failed := kind != hfNone
	switch k {
	case "headers", "blocks":
		var s string
		if len(ev.reqs) > 0 && len(ev.reqs[0].Params) > 0 {
			s = strings.Trim(string(ev.reqs[0].Params[0]), `"`)
		}
		if s == "latest" {
			if !poller {
				st.directLatest++
			}
			// "before the source is asked again": any upstream request for
			// the head counts as asking, whether or not it was answered
			st.headHits = 0
			if !failed {
				st.latestAnswers++
			}
			return
		}
		start, err := parseHexU(s)
		if err != nil {
			return
		}
		key := segKey(k == "blocks", start, uint64(len(ev.reqs)))
		if failed {
			st.faultsOnKey[key]++
		} else {
			st.fills[key]++
		}
	case "logs":
		// the logs batch carries [header(to), getLogs{from,to}]
		if failed {
			var f struct {
				From string `json:"fromBlock"`
				To   string `json:"toBlock"`
			}
			if len(ev.reqs) > 1 && len(ev.reqs[1].Params) > 0 {
				jsonUnmarshal(ev.reqs[1].Params[0], &f)
			}
			a, _ := parseHexU(f.From)
			b, _ := parseHexU(f.To)
			st.faultsOnKey["logs/"+fmt.Sprint(a, "/", b-a+1)]++
		}
	}
}

var errNoPlan = errors.New("no c08 plan")

// GenC08 builds a random case.
func GenC08(seed uint64) *Plan {
	g := NewG(seed)
	p := g.basePlan("C08", seed)
	p.Sources[0].InitLen = 24
	p.Sources[0].NURLs = 1
	p.Content = ContentPlan{TxMax: 2, MinTx: 1, LogMax: 3, EmptyPct: 0, Events: []EventSpec{{Event: transferEvent()}},
		Addrs: []string{"0x00000000000000000000000000000000000000a1", "0x00000000000000000000000000000000000000a2", "0x00000000000000000000000000000000000000a3"}}
	cs := &C08Case{MaxReads: g.between(1, 6), PollMs: g.pickInt([]int{100, 500, 1000}), HeadMode: g.chance(35)}
	if cs.HeadMode {
		p.Sources[0].WS = g.chance(40)
	}
	nc := g.between(2, 6)
	// a few hot ranges so that callers collide on segments
	type rng struct{ s, l uint64 }
	var hot []rng
	for i := 0; i < g.between(1, 3); i++ {
		hot = append(hot, rng{uint64(g.between(1, 16)), uint64(g.between(1, 4))})
	}
	for c := 0; c < nc; c++ {
		var ops []C08Op
		for k := 0; k < g.between(3, 10); k++ {
			if cs.HeadMode || g.chance(20) {
				fl := uint64(0)
				if g.chance(70) {
					fl = uint64(g.between(1, 30))
				}
				ops = append(ops, C08Op{Kind: "latest", N: fl})
				continue
			}
			r := hot[g.R.IntN(len(hot))]
			if g.chance(15) {
				r = rng{uint64(g.between(1, 18)), uint64(g.between(1, 4))}
			}
			ops = append(ops, C08Op{Kind: "get", Flags: g.pick([]string{"h", "b", "hl", "bl", "hl", "bl"}), Addr: g.between(-1, 2), Start: r.s, Limit: r.l})
		}
		cs.Callers = append(cs.Callers, ops)
	}
	p.C08 = cs
	p.MaxSteps = 3000
	p.Faults = FaultPlan{HealAt: 1 << 30}
	if g.chance(60) {
		p.Faults.HTTPPerMille = g.between(20, 150)
		p.Faults.HTTPKinds = 1<<hfConnErr | 1<<hfStatus | 1<<hfTruncated | 1<<hfNonJSON | 1<<hfRPCError | 1<<hfNullResult
	}
	if !cs.HeadMode && g.chance(25) {
		// free-running layer: no hooks, no faults, real mutexes and real
		// goroutines; small max-reads and one hot range so that callers
		// arrive while a fetch of that range is in flight
		p.FreeSteps = 1
		p.Faults = FaultPlan{}
		cs.MaxReads = g.between(1, 3)
	}
	if cs.HeadMode {
		p.Faults.GrowPerMille = 60
		p.Faults.MaxGrow = 30
		p.Faults.ReorgPerMille = 40
		p.Faults.MaxReorgDepth = 3
		p.Faults.MaxReorgs = 6
	}
	return p
}

func init() {
	Generators["C08"] = GenC08
	Runners["C08"] = func(t *testing.T, plan *Plan, st *core.Stream, extra Extra, keepLog bool) *Result {
		if plan.FreeSteps > 0 {
			return RunC08Free(t, plan, st, extra, keepLog)
		}
		return RunC08(t, plan, st, extra, keepLog)
	}
}

func bigOrZero(b *big.Int) *big.Int {
	if b == nil {
		return new(big.Int)
	}
	return b
}
