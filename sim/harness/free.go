package harness

import (
	"bytes"
	"encoding/json"
	"errors"
	"fmt"
	"io"
	"net/http"
	"runtime"
	"sync"
	"testing"
	"testing/synctest"
	"time"

	"verifsim/core"
	"verifsim/fakepg"
	"verifsim/node"

	"github.com/indexsupply/shovel/shovel"
)

// Free-running mode (C18 only). Nothing parks: HTTP requests are answered at
// once from a frozen, read-only chain (no lock, no recording: the node adds no
// happens-before edge between tasks), pgwire groups execute at once, the lock
// hooks are off (shovel's real mutexes do all the blocking), and the tasks are
// driven by plain goroutines doing Converge in a loop, sleeping one poll
// interval on "nothing new" like Manager.runTask (on the bubble's fake clock,
// so the head poller runs concurrently with the next round of steps). The Go
// scheduler decides the interleaving; the seed fixes workload and data. This
// mode exists because the scheduler's lock-grant rules encode the blocking
// behaviour of the current code: a change that makes a lock non-blocking
// would never be exposed under them.

func (w *World) freeRoundTrip(req *http.Request, body []byte) (*http.Response, error) {
	host := req.URL.Hostname()
	src, gen, _, ok := parseHost(host)
	if !ok || gen != w.gen || w.srcs[src] == nil || w.dead.Load() {
		return nil, fmt.Errorf("dial tcp %s: connection refused", host)
	}
	reqs, batch, err := node.ParseBody(body)
	if err != nil {
		return nil, err
	}
	replies := w.srcs[src].node.Serve(host, reqs, nil)
	var rb []byte
	if batch {
		rb, _ = json.Marshal(replies)
	} else {
		rb, _ = json.Marshal(replies[0])
	}
	return &http.Response{Status: "200", StatusCode: 200, Proto: "HTTP/1.1", ProtoMajor: 1, ProtoMinor: 1,
		Header: http.Header{"Content-Type": []string{"application/json"}}, Body: io.NopCloser(bytes.NewReader(rb)), ContentLength: int64(len(rb)), Request: req}, nil
}

// RunFree executes one free-running run of plan.
func RunFree(t *testing.T, plan *Plan, st *core.Stream, extra Extra, keepLog bool) (res *Result) {
	installHooks()
	res = &Result{Prop: plan.Prop, Seed: plan.Seed, Stats: map[string]int{}, PlanDigest: plan.Digest() + " free"}
	w := &World{t: t, plan: plan, st: st, srcs: map[string]*srcState{}, stats: res.Stats, projCache: map[string][]string{}, extra: extra, scriptFired: map[int]bool{}, free: true}
	bubbleDone := make(chan any, 1)
	go func() {
		var pv any
		defer func() { bubbleDone <- pv }()
		defer func() { pv = recover() }()
		func() {
			defer func() {
				if r := recover(); r != nil {
					if msg := fmt.Sprint(r); len(msg) > 0 && bytes.Contains([]byte(msg), []byte("deadlock: main bubble goroutine has exited")) {
						res.Stats["teardown_leftover"]++
						return
					}
					panic(r)
				}
			}()
			synctest.Test(t, func(t *testing.T) {
				w.sched = core.NewSched()
				w.clock = core.NewClock()
				w.srv = fakepg.NewServer()
				w.srv.DB.Now = time.Now
				w.srv.Gate = w.gate
				var ncommit int
				var cmu sync.Mutex
				w.srv.DB.OnCommit = func(ci *fakepg.CommitInfo) {
					cmu.Lock()
					ncommit++
					cmu.Unlock()
				}
				theWorld = w
				defer func() { theWorld = nil }()
				w.setup = true
				if err := w.build(); err != nil {
					if err != errSkipRun {
						w.harnessFail("setup: %v", err)
					}
					w.teardown()
					return
				}
				for _, ss := range w.sources() {
					ss.node.Quiet = true
				}
				if err := w.startGenerationTasksOnly(); err != nil {
					w.harnessFail("setup: %v", err)
					w.teardown()
					return
				}
				w.setup = false
				var wg sync.WaitGroup
				var smu sync.Mutex
				steps := 0
				for _, ps := range w.pairs {
					wg.Add(1)
					go func(ps *pairState) {
						defer wg.Done()
						quiet := 0
						for i := 0; i < plan.FreeSteps && quiet < 3; i++ {
							err := w.safeConverge(ps, ps.task)
							smu.Lock()
							steps++
							res.Stats["outcome_"+outcomeName(err)]++
							smu.Unlock()
							switch {
							case err == nil:
								quiet = 0
								runtime.Gosched()
							case errors.Is(err, shovel.ErrNothingNew), errors.Is(err, shovel.ErrDone):
								quiet++
								time.Sleep(time.Duration(ps.src.plan.PollMs) * time.Millisecond)
							default:
								time.Sleep(time.Second)
							}
						}
					}(ps)
				}
				done := make(chan struct{})
				go func() { wg.Wait(); close(done) }()
				<-done
				w.step = steps
				cmu.Lock()
				res.Commits = ncommit
				cmu.Unlock()
				w.teardown()
				res.SimTimeMs = w.clock.Elapsed().Milliseconds()
			})
		}()
	}()
	if pv := <-bubbleDone; pv != nil {
		panic(pv)
	}
	res.Violations = w.viol
	res.HarnessErr = w.harnessErr
	if w.srv != nil && w.srv.Unsupported != nil && res.HarnessErr == "" {
		res.HarnessErr = w.srv.Unsupported.Error()
	}
	res.Steps = w.step
	res.Converges = w.step
	res.Decisions = st.Recorded()
	res.NDecisions = len(res.Decisions)
	res.LogHash = fmt.Sprintf("free-%016x", plan.Seed)
	res.StateHash = w.stateHash()
	res.Stats["free_runs"] = 1
	res.NonTrivial = res.Commits > 0 && len(w.pairs)*max(1, plan.Sources[0].Conc) > 1
	return res
}
