package harness

import (
	"fmt"
	"sync"
	"testing"

	"verifsim/core"
	"verifsim/model"
)

// C02 fault enumeration: a catalogue of deterministic scenarios; for each, the
// fault-free run is recorded once to learn its seam events; then one run per
// (seam event, fault kind) injects exactly that fault, lets the step fail and
// continues fault-free. Oracles: the generic snapshot invariants at every
// commit, and the retry oracle (final state == fault-free final state).

func c02Base(name string, batch, conc int) *Plan {
	p := &Plan{Prop: "C02", Seed: 0xC02, Checks: map[string]bool{}, Note: name}
	p.Sources = []SourcePlan{{Name: "s0", ChainID: 5000, NURLs: 1, Batch: batch, Conc: conc, PollMs: 1000, InitLen: 9}}
	p.Content = ContentPlan{TxMax: 2, LogMax: 2, TraceMax: 2, MinTx: 1, EmptyPct: 0,
		Addrs: []string{"0x00000000000000000000000000000000000000a1", "0x00000000000000000000000000000000000000a2"}}
	p.MaxSteps = 1500
	p.Faults.HealAt = 0
	return p
}

func transferEvent() *model.Event {
	return &model.Event{Name: "Transfer", Type: "event", Inputs: []model.Input{
		{Name: "from", Type: "address", Indexed: true, Column: "c_from"},
		{Name: "to", Type: "address", Indexed: true, Column: "c_to"},
		{Name: "v", Type: "uint256", Column: "c_v"},
	}}
}

func logDecl(name string, start uint64, hashed bool) *model.Decl {
	d := &model.Decl{Name: name, Enabled: true, Event: transferEvent(), Sources: []model.SrcRef{{Name: "s0", Start: start}}}
	d.Table.Name = "t_" + name
	d.Table.Columns = []model.Col{{Name: "c_from", Type: "bytea"}, {Name: "c_to", Type: "bytea"}, {Name: "c_v", Type: "numeric"}}
	if hashed {
		d.Block = append(d.Block, model.Field{Name: "block_time", Column: "block_time"})
		d.Table.Columns = append(d.Table.Columns, model.Col{Name: "block_time", Type: "numeric"})
	}
	return d
}

// C02Scenarios is the catalogue.
func C02Scenarios() []*Plan {
	var out []*Plan
	add := func(p *Plan) { out = append(out, p) }

	p := c02Base("first-step-from-empty b1c1 log", 1, 1)
	p.Decls = []*model.Decl{logDecl("ig0", 6, false)}
	p.Content.Events = []EventSpec{{Event: transferEvent()}}
	add(p)

	p = c02Base("batch4 conc2 log hashed", 4, 2)
	p.Decls = []*model.Decl{logDecl("ig0", 3, true)}
	p.Content.Events = []EventSpec{{Event: transferEvent()}}
	add(p)

	p = c02Base("reference filter (lookup inside the inserting transaction)", 3, 1)
	ref := &model.Decl{Name: "ref0", Enabled: true, Sources: []model.SrcRef{{Name: "s0", Start: 1}},
		Event: &model.Event{Name: "Created", Type: "event", Inputs: []model.Input{{Name: "pool", Type: "address", Column: "c_pool"}}}}
	ref.Table.Name = "t_ref0"
	ref.Table.Columns = []model.Col{{Name: "c_pool", Type: "bytea"}}
	dep := logDecl("dep", 4, false)
	dep.Event.Inputs[0].Filter = &model.Filter{Op: "contains", Ref: &model.Ref{Integration: "ref0", Column: "c_pool"}}
	p.Decls = []*model.Decl{ref, dep}
	p.Content.Events = []EventSpec{{Event: transferEvent()}, {Event: ref.Event}}
	p.Content.Seeded = []SeededLogs{{Event: ref.Event, AddrInput: 0, UpTo: 2}}
	add(p)

	p = c02Base("notifications", 2, 1)
	d := logDecl("ig0", 5, false)
	d.Notification = &model.Notification{Columns: []string{"block_num", "c_v"}}
	p.Decls = []*model.Decl{d}
	p.Content.Events = []EventSpec{{Event: transferEvent()}}
	add(p)

	p = c02Base("receipts plan (tx mode)", 2, 2)
	d = &model.Decl{Name: "ig0", Enabled: true, Sources: []model.SrcRef{{Name: "s0", Start: 5}},
		Block: []model.Field{{Name: "tx_status", Column: "tx_status"}, {Name: "tx_gas_used", Column: "tx_gas_used"}, {Name: "tx_hash", Column: "tx_hash"}}}
	d.Table.Name = "t_ig0"
	d.Table.Columns = []model.Col{{Name: "tx_status", Type: "int"}, {Name: "tx_gas_used", Type: "numeric"}, {Name: "tx_hash", Type: "bytea"}}
	p.Decls = []*model.Decl{d}
	p.Content.Events = []EventSpec{{Event: transferEvent(), Decoy: true}}
	add(p)

	p = c02Base("traces plan", 2, 1)
	d = &model.Decl{Name: "ig0", Enabled: true, Sources: []model.SrcRef{{Name: "s0", Start: 6}},
		Block: []model.Field{{Name: "trace_action_from", Column: "trace_action_from"}, {Name: "trace_action_value", Column: "trace_action_value"}, {Name: "tx_hash", Column: "tx_hash"}}}
	d.Table.Name = "t_ig0"
	d.Table.Columns = []model.Col{{Name: "trace_action_from", Type: "bytea"}, {Name: "trace_action_value", Type: "numeric"}, {Name: "tx_hash", Type: "bytea"}}
	p.Decls = []*model.Decl{d}
	p.Content.MinTraces = 1
	p.Content.Events = []EventSpec{{Event: transferEvent(), Decoy: true}}
	add(p)

	p = c02Base("reorg depth 1, batch 1", 1, 1)
	p.Decls = []*model.Decl{logDecl("ig0", 6, true)}
	p.Content.Events = []EventSpec{{Event: transferEvent()}}
	p.ScriptChain = []ScriptedChain{{AtPos: 8, Src: "s0", Action: "reorg", Depth: 1, NewLen: 2}}
	p.Faults.MaxReorgs = 1
	p.Faults.MaxReorgDepth = 1
	add(p)

	p = c02Base("reorg depth 2, batch 1", 1, 1)
	p.Decls = []*model.Decl{logDecl("ig0", 5, true)}
	p.Content.Events = []EventSpec{{Event: transferEvent()}}
	p.ScriptChain = []ScriptedChain{{AtPos: 8, Src: "s0", Action: "reorg", Depth: 2, NewLen: 3}}
	p.Faults.MaxReorgs = 1
	p.Faults.MaxReorgDepth = 2
	add(p)

	p = c02Base("reorg depth 2, batch 3", 3, 1)
	p.Decls = []*model.Decl{logDecl("ig0", 3, true)}
	p.Content.Events = []EventSpec{{Event: transferEvent()}}
	p.ScriptChain = []ScriptedChain{{AtPos: 8, Src: "s0", Action: "reorg", Depth: 2, NewLen: 3}}
	p.Faults.MaxReorgs = 1
	p.Faults.MaxReorgDepth = 2
	add(p)

	// the replaced tip was recorded one block at a time (following the head)
	// and the new branch is longer: the step that unwinds it records a
	// position number no stale row has, so nothing but the transaction
	// boundaries keeps old and new rows apart
	// (four chains: whether rows of the replaced block and of its replacement
	// collide on the table's unique key, which would hide a surviving orphan
	// behind a duplicate-key error, depends on where their logs sit)
	for k := 0; k < 4; k++ {
		p = c02Base(fmt.Sprintf("reorg depth 1 after following the head, batch 4, longer branch (chain %d)", k), 4, 1)
		p.Seed += uint64(k) * 7919
		p.Decls = []*model.Decl{logDecl("ig0", 3, true)}
		p.Content.Events = []EventSpec{{Event: transferEvent()}}
		p.ScriptChain = []ScriptedChain{{AtPos: 8, Src: "s0", Action: "grow", N: 1}, {AtPos: 9, Src: "s0", Action: "reorg", Depth: 1, NewLen: 3}}
		p.Faults.MaxReorgs = 1
		p.Faults.MaxReorgDepth = 1
		p.Faults.MaxGrow = 1
		add(p)
	}
	return out
}

type c02Case struct {
	scenario int
	fault    ScriptedFault
}

var (
	c02Once  sync.Once
	c02Cases []c02Case
	c02Sem   []string // baseline semantic hash per scenario
	c02Err   string
)

var pgKindsParked = []string{"error", "drop-before", "drop-after", "crash-before", "crash-after"}
var pgKindsInline = []string{"error", "drop-before", "drop-after"}
var httpKindsWhole = []string{"conn_err", "bad_status", "truncated", "non_json", "stall"}
var httpKindsElem = []string{"rpc_error", "null_result"}

// c02Init records every scenario's fault-free run and lays out the case list.
func c02Init(t *testing.T) {
	c02Once.Do(func() {
		for si, sc := range C02Scenarios() {
			p := clonePlan(sc)
			p.Checks["report_seams"] = true
			res := RunPlan(t, p, core.NewReplay(nil), false)
			if res.HarnessErr == "" && len(res.Violations) > 0 {
				// the property already fails without any fault: the scenario is
				// run once more as a case of its own so that the violation is
				// reported with a replay file (no fault enumeration on top of it)
				c02Sem = append(c02Sem, "")
				c02Cases = append(c02Cases, c02Case{si, ScriptedFault{Seam: "none"}})
				continue
			}
			if res.HarnessErr != "" || res.Stats["quiesced"] == 0 {
				c02Err = fmt.Sprintf("scenario %d (%s): fault-free run is not clean: harness=%q violations=%v quiesced=%d", si, sc.Note, res.HarnessErr, res.Violations, res.Stats["quiesced"])
				return
			}
			c02Sem = append(c02Sem, res.SemHash)
			for k, cls := range res.PGClasses {
				kinds := pgKindsParked
				if cls == "copy" || cls == "copy-data" {
					kinds = pgKindsInline
				}
				for _, kind := range kinds {
					c02Cases = append(c02Cases, c02Case{si, ScriptedFault{Seam: "pg", Ordinal: k, Kind: kind}})
				}
			}
			// the same faults once more at every commit, addressed as "the n-th
			// commit": the transaction boundaries are what the property is about
			ncommit := 0
			for _, cls := range res.PGClasses {
				if cls == "commit" {
					ncommit++
				}
			}
			for n := 0; n < ncommit; n++ {
				for _, kind := range pgKindsParked {
					c02Cases = append(c02Cases, c02Case{si, ScriptedFault{Seam: "pg", Ordinal: -1, Class: "commit", Nth: n, Kind: kind}})
				}
			}
			for k, n := range res.HTTPSizes {
				for _, kind := range httpKindsWhole {
					c02Cases = append(c02Cases, c02Case{si, ScriptedFault{Seam: "http", Ordinal: k, Kind: kind, Elem: k}})
				}
				for e := 0; e < n; e++ {
					for _, kind := range httpKindsElem {
						c02Cases = append(c02Cases, c02Case{si, ScriptedFault{Seam: "http", Ordinal: k, Kind: kind, Elem: e}})
					}
				}
			}
		}
	})
}

// C02Indexed maps a run index to an enumerated single-fault case; indices past
// the enumeration continue with random multi-fault exploration.
func C02Indexed(t *testing.T, i int, seedBase uint64) (*Plan, bool) {
	c02Init(t)
	if c02Err != "" {
		p := c02Base("broken baseline", 1, 1)
		p.Checks["harness_error"] = true
		p.Note = c02Err
		return p, true
	}
	if i < len(c02Cases) {
		c := c02Cases[i]
		p := clonePlan(C02Scenarios()[c.scenario])
		if c.fault.Seam != "none" {
			p.Script = []ScriptedFault{c.fault}
		}
		p.ExpectSem = c02Sem[c.scenario]
		p.Checks["enumerated"] = true
		p.Note = fmt.Sprintf("%s | %s#%d %s elem=%d", p.Note, c.fault.Seam, c.fault.Ordinal, c.fault.Kind, c.fault.Elem)
		return p, true
	}
	return GenC02x(RunSeed(seedBase, "C02", i)), true
}

func C02EnumSize(t *testing.T) int {
	c02Init(t)
	return len(c02Cases)
}

func init() {
	Indexed["C02"] = C02Indexed
	Extras["C02"] = func(p *Plan) Extra {
		return Extra{AtEnd: func(w *World) {
			if p.Checks["harness_error"] {
				w.harnessFail("%s", p.Note)
				return
			}
			if p.ExpectSem == "" {
				return
			}
			w.stat("enum_case", 1)
			if !w.quiescent() {
				if len(w.viol) == 0 {
					w.violate("retry-not-converged", "after the injected fault (%s) the run did not reach quiescence within %d scheduler steps", p.Note, w.step)
				}
				return
			}
			if got := w.semHash(); got != p.ExpectSem {
				w.violate("retry-differs", "after the injected fault (%s) the final rows/positions differ from the fault-free run's", p.Note)
			}
		}}
	}
}
