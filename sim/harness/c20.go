package harness

import (
	"bytes"
	"context"
	"encoding/json"
	"fmt"
	"net/http/httptest"
	"sort"
	"strings"
	"sync"
	"testing"
	"testing/synctest"
	"time"

	"verifsim/core"
	"verifsim/fakepg"
	"verifsim/model"
	"verifsim/node"

	"github.com/indexsupply/shovel/shovel"
	"github.com/indexsupply/shovel/shovel/config"
	"github.com/indexsupply/shovel/shovel/web"
)

// C20 — the manager runs exactly the configured tasks, one runner each,
// across restarts. Real Manager.Run/Restart/runTask on a shared pool under the
// strict scheduler (HTTP, pgwire, cache locks, the manager's run lock and the
// runner-start hook are scheduling points; the runners' own sleeps run on the
// fake clock).

type C20DBIntegration struct {
	Decl *model.Decl `json:"decl"`
}

type C20DBSource struct {
	Name    string `json:"name"`
	ChainID int    `json:"chain_id"`
	URL     string `json:"url"`
}

type C20Case struct {
	DBIntegrations []*model.Decl `json:"db_integrations,omitempty"`
	DBSources      []C20DBSource `json:"db_sources,omitempty"`
	// Saves are dashboard submissions available to the scheduler as actions.
	Saves          []*model.Decl `json:"saves,omitempty"`
	MaxRestarts    int           `json:"max_restarts"`
	RestartPM      int           `json:"restart_pm"`
	SavePM         int           `json:"save_pm"`
	DoubleRestart  bool          `json:"double_restart"` // allow two Restart calls in flight
	ExpectRunError bool          `json:"expect_run_error,omitempty"`
}

type c20Runner struct {
	src, ig string
	task    any
	gen     int
	live    bool
}

type c20State struct {
	mu        sync.Mutex
	gen       int // number of Run invocations that obtained the run lock
	runners   []*c20Runner
	byTask    map[any]*c20Runner
	restarts  int
	inFlight  int // Restart calls that have not returned
	saved     []string
	runErrs   []string
	hostsUsed map[string]bool
	// txPairs: per database session with an open transaction, the pairs whose
	// position that transaction has read or written (independent of the
	// runner events: observed at the database only)
	txPairs map[*fakepg.Tx]map[string]bool
}

// c20OnExecute watches position statements at the database: two open
// transactions working on the position of one (source, integration) pair at
// the same time mean two runners drive that pair at once.
func (w *World) c20OnExecute(connID int, owner, sql string, params []fakepg.Value, tx *fakepg.Tx) {
	st := w.c20
	if st == nil || tx == nil {
		return
	}
	var a, b int
	switch pgClassShort(strings.ToLower(strings.Join(strings.Fields(sql), " "))) {
	case "cursor-select", "cursor-delete":
		a, b = 0, 1
	case "cursor-insert":
		a, b = 1, 2
	default:
		return
	}
	if len(params) <= b {
		return
	}
	pair := fmt.Sprintf("%v/%v", params[a], params[b])
	open := w.srv.OpenTxs()
	st.mu.Lock()
	defer st.mu.Unlock()
	if st.txPairs == nil {
		st.txPairs = map[*fakepg.Tx]map[string]bool{}
	}
	for t := range st.txPairs {
		if _, ok := open[t]; !ok {
			delete(st.txPairs, t)
		}
	}
	for t, ps := range st.txPairs {
		if t != tx && ps[pair] {
			w.violate("two-transactions-one-pair", "two open database transactions work on the position of pair %s at the same time (sessions %d and %d): the pair is driven by two runners at once", pair, open[t], connID)
		}
	}
	if st.txPairs[tx] == nil {
		st.txPairs[tx] = map[string]bool{}
	}
	st.txPairs[tx][pair] = true
	w.stat("probe_position_statements_watched", 1)
}

func (w *World) c20HookEvent(name string, kv ...any) {
	st := w.c20
	if st == nil {
		return
	}
	switch name {
	case "runTask.start":
		src, _ := kv[0].(string)
		ig, _ := kv[1].(string)
		// scheduling point: Manager.Run launches all runners in one instant
		w.sched.Park(nil, "runner", "runner-start "+src+"/"+ig, nil)
		st.mu.Lock()
		r := &c20Runner{src: src, ig: ig, task: kv[2], gen: st.gen, live: true}
		for _, o := range st.runners {
			if o.live && o.src == src && o.ig == ig {
				w.violate("two-runners", "pair %s/%s is driven by two runners at once (generations %d and %d)", src, ig, o.gen, r.gen)
			}
		}
		st.runners = append(st.runners, r)
		st.byTask[kv[2]] = r
		st.mu.Unlock()
		w.sched.Log.Add("%d runner start %s/%s gen=%d", w.step, src, ig, r.gen)
	case "runTask.stop":
		st.mu.Lock()
		if r := st.byTask[kv[2]]; r != nil {
			r.live = false
			if !w.ending.Load() {
				// at the end of a run all runners are stopped at once: their
				// order is the Go scheduler's and is not part of the event log
				w.sched.Log.Add("%d runner stop %s/%s gen=%d", w.step, r.src, r.ig, r.gen)
			}
		}
		st.mu.Unlock()
	}
}

// c20Expected: merge of file and database configuration with file precedence,
// disabled entries skipped; error if a referenced source is unknown.
func c20Expected(p *Plan, cs *C20Case, saved []*model.Decl) (pairs map[string]*model.Decl, srcHost map[string]string, err string) {
	igs := map[string]*model.Decl{}
	for _, d := range cs.DBIntegrations {
		igs[d.Name] = d
	}
	for _, d := range saved {
		igs[d.Name] = d
	}
	for _, d := range p.Decls {
		igs[d.Name] = d
	}
	srcHost = map[string]string{}
	for _, s := range cs.DBSources {
		srcHost[s.Name] = strings.TrimPrefix(s.URL, "http://")
	}
	for _, s := range p.Sources {
		srcHost[s.Name] = hostFor(s.Name, 0, 0)
	}
	pairs = map[string]*model.Decl{}
	var names []string
	for n := range igs {
		names = append(names, n)
	}
	sort.Strings(names)
	for _, n := range names {
		d := igs[n]
		if !d.Enabled {
			continue
		}
		for _, ref := range d.Sources {
			if _, ok := srcHost[ref.Name]; !ok {
				return nil, srcHost, fmt.Sprintf("integration %s references unknown source %s", d.Name, ref.Name)
			}
			pairs[ref.Name+"/"+d.Name] = d
		}
	}
	return pairs, srcHost, ""
}

func RunC20(t *testing.T, plan *Plan, st *core.Stream, extra Extra, keepLog bool) (res *Result) {
	installHooks()
	cs := plan.C20
	res = &Result{Prop: plan.Prop, Seed: plan.Seed, Stats: map[string]int{}, PlanDigest: plan.Digest() + fmt.Sprintf(" db_igs=%d db_srcs=%d saves=%d", len(cs.DBIntegrations), len(cs.DBSources), len(cs.Saves))}
	w := &World{t: t, plan: plan, st: st, srcs: map[string]*srcState{}, stats: res.Stats, projCache: map[string][]string{}, scriptFired: map[int]bool{}, extra: extra}
	state := &c20State{byTask: map[any]*c20Runner{}, hostsUsed: map[string]bool{}}
	w.c20Progress = map[string]int64{}
	func() {
		defer func() {
			if r := recover(); r != nil {
				if strings.Contains(fmt.Sprint(r), "deadlock: main bubble goroutine has exited") {
					res.Stats["teardown_leftover"]++
					return
				}
				panic(r)
			}
		}()
		synctest.Test(t, func(t *testing.T) {
			w.sched = core.NewSched()
			w.sched.Log.Keep = keepLog
			w.clock = core.NewClock()
			w.srv = fakepg.NewServer()
			w.srv.DB.Now = time.Now
			w.srv.Gate = w.gate
			w.srv.DB.OnCommit = func(ci *fakepg.CommitInfo) {
				w.mu.Lock()
				w.commits = append(w.commits, ci)
				w.mu.Unlock()
			}
			if extra.OnSQL != nil {
				w.srv.OnSQL = func(owner, kind, sql string) { extra.OnSQL(w, owner, kind, sql) }
			}
			theWorld = w
			w.c20 = state
			w.srv.OnExecute = w.c20OnExecute
			w.onHookEvent = w.c20HookEvent
			defer func() { theWorld = nil }()
			w.setup = true
			if err := w.c20Build(); err != nil {
				w.harnessFail("setup: %v", err)
				w.teardown()
				return
			}
			w.setup = false
			w.c20Loop()
			w.c20Final()
			if w.mgr != nil {
				func() {
					defer func() { recover() }()
					w.ending.Store(true)
					w.mgr.VerifStop()
				}()
			}
			w.teardown()
			res.SimTimeMs = w.clock.Elapsed().Milliseconds()
		})
	}()
	res.Violations = w.viol
	res.HarnessErr = w.harnessErr
	if w.srv != nil && w.srv.Unsupported != nil && res.HarnessErr == "" {
		res.HarnessErr = w.srv.Unsupported.Error()
	}
	res.Steps = w.step
	res.Decisions = st.Recorded()
	res.NDecisions = len(res.Decisions)
	if w.sched != nil {
		res.LogHash = fmt.Sprintf("%016x", w.sched.Log.Hash())
		if keepLog {
			res.LogTail = w.sched.Log.Tail(1 << 30)
		} else {
			res.LogTail = w.sched.Log.Tail(80)
		}
	}
	res.Commits = len(w.commits)
	res.StateHash = w.stateHash()
	res.NonTrivial = res.Stats["commit_data"] > 0 && (res.Stats["c20_restarts"] > 0 || res.Stats["c20_saves"] > 0 || len(cs.DBIntegrations)+len(cs.DBSources) > 0)
	return res
}

func (w *World) c20Build() error {
	p := w.plan
	cs := p.C20
	for _, sp := range p.Sources {
		n := node.New(sp.Name, sp.ChainID, p.Seed, MakeFiller(p, sp.Name))
		n.Grow(sp.InitLen)
		w.srcs[sp.Name] = &srcState{plan: sp, node: n}
	}
	// database-only sources get a node too (named after the source)
	for _, s := range cs.DBSources {
		if w.srcs[s.Name] == nil {
			n := node.New(s.Name, uint64(s.ChainID), p.Seed, MakeFiller(p, s.Name))
			n.Grow(12)
			w.srcs[s.Name] = &srcState{plan: SourcePlan{Name: s.Name, ChainID: uint64(s.ChainID), NURLs: 1, Batch: 1, Conc: 1, PollMs: 1000, InitLen: 12}, node: n}
		}
	}
	cj, err := p.ConfigJSON(w.urlsFor)
	if err != nil {
		return err
	}
	if len(p.RawConfig) > 0 {
		cj = p.RawConfig
	}
	if err := json.Unmarshal(cj, &w.conf); err != nil {
		return err
	}
	if err := config.ValidateFix(&w.conf); err != nil {
		return fmt.Errorf("ValidateFix rejected generated config: %w", err)
	}
	if err := w.srv.InstallSchema(shovel.Schema); err != nil {
		return err
	}
	sp, err := w.newPool("setup", 2)
	if err != nil {
		return err
	}
	w.setupPool = sp
	ctx := context.Background()
	// database configuration: integrations (validated and migrated like the file ones) and sources
	var dbconf config.Root
	for _, d := range cs.DBIntegrations {
		b, _ := json.Marshal(d)
		var ig config.Integration
		if err := json.Unmarshal(b, &ig); err != nil {
			return err
		}
		dbconf.Integrations = append(dbconf.Integrations, ig)
	}
	if err := config.ValidateFix(&dbconf); err != nil {
		return fmt.Errorf("ValidateFix rejected generated db config: %w", err)
	}
	if err := config.Migrate(ctx, sp, w.conf); err != nil {
		return fmt.Errorf("migrate: %w", err)
	}
	if err := config.Migrate(ctx, sp, dbconf); err != nil {
		return fmt.Errorf("migrate db: %w", err)
	}
	for _, ig := range dbconf.Integrations {
		b, _ := json.Marshal(ig)
		if _, err := sp.Exec(ctx, `insert into shovel.integrations(name, conf) values ($1, $2)`, ig.Name, b); err != nil {
			return fmt.Errorf("insert db integration: %w", err)
		}
	}
	for _, s := range cs.DBSources {
		if _, err := sp.Exec(ctx, `insert into shovel.sources(chain_id, name, url) values ($1, $2, $3)`, s.ChainID, s.Name, s.URL); err != nil {
			return fmt.Errorf("insert db source: %w", err)
		}
	}
	// saved integrations need their tables as well (the dashboard does not migrate)
	var saveconf config.Root
	for _, d := range cs.Saves {
		b, _ := json.Marshal(d)
		var ig config.Integration
		json.Unmarshal(b, &ig)
		saveconf.Integrations = append(saveconf.Integrations, ig)
	}
	if err := config.ValidateFix(&saveconf); err == nil {
		if err := config.Migrate(ctx, sp, saveconf); err != nil {
			return fmt.Errorf("migrate saves: %w", err)
		}
		w.c20SaveConf = saveconf
	}
	pool, err := w.newPool("shared#g0", int32(2*(len(p.Decls)+len(cs.DBIntegrations)+len(cs.Saves))*max(1, len(p.Sources)+len(cs.DBSources))+4))
	if err != nil {
		return err
	}
	w.mgr = shovel.NewManager(ctx, pool, w.conf)
	w.web = web.New(w.mgr, &w.conf, pool)
	return nil
}

// c20Run starts Manager.Run and waits (as a scheduler-visible goroutine) for its verdict.
func (w *World) c20StartRun() {
	ec := make(chan error)
	go w.mgr.Run(ec)
	go func() {
		err := <-ec
		w.c20RunVerdict(err, "run")
	}()
}

func (w *World) c20RunVerdict(err error, what string) {
	st := w.c20
	st.mu.Lock()
	defer st.mu.Unlock()
	if err != nil {
		st.runErrs = append(st.runErrs, err.Error())
		w.sched.Log.Add("%d %s verdict error", w.step, what)
	} else {
		w.sched.Log.Add("%d %s verdict ok", w.step, what)
	}
	w.c20Verdicts = append(w.c20Verdicts, err)
}

func (w *World) c20Loop() {
	cs := w.plan.C20
	st := w.c20
	maxSteps := w.plan.MaxSteps
	w.c20StartRun()
	idle := 0
	var savedDecls []*model.Decl
	for w.step = 1; w.step <= maxSteps; w.step++ {
		if w.harnessErr != "" || w.sched.Broken != "" {
			if w.sched.Broken != "" {
				w.harnessFail("scheduler: %s", w.sched.Broken)
			}
			return
		}
		if !w.healed && w.step > w.plan.Faults.HealAt {
			w.healed = true
			w.logf("heal")
		}
		if len(w.plan.C15Submit) > 0 && !w.c15Submitted && len(w.c20Verdicts) > 0 && w.step > 150 {
			w.c15Submitted = true
			st.mu.Lock()
			st.inFlight++
			st.restarts++
			st.mu.Unlock()
			w.logf("dashboard submission (C15)")
			go w.c15Dashboard()
			continue
		}
		if w.faultsOn() {
			st.mu.Lock()
			canRestart := st.restarts < cs.MaxRestarts && (st.inFlight == 0 || (cs.DoubleRestart && st.inFlight == 1)) && len(w.c20Verdicts) > 0
			canSave := len(savedDecls) < len(cs.Saves) && st.inFlight == 0 && len(w.c20Verdicts) > 0
			st.mu.Unlock()
			wts := []int{1000, 0, 0, 0, w.plan.Faults.JumpPerMille}
			if canRestart {
				wts[1] = cs.RestartPM
			}
			if canSave {
				wts[2] = cs.SavePM
			}
			if w.grown < w.plan.Faults.MaxGrow {
				wts[3] = w.plan.Faults.GrowPerMille
			}
			switch w.st.Weighted(wts, "action") {
			case 1:
				st.mu.Lock()
				st.restarts++
				st.inFlight++
				st.mu.Unlock()
				w.stat("c20_restarts", 1)
				w.logf("restart requested")
				go func() {
					var err error
					func() {
						defer func() {
							if r := recover(); r != nil {
								err = fmt.Errorf("PANIC: %v", r)
								w.violate(panicClass(r), "Manager.Restart panicked: %v", r)
							}
						}()
						err = w.mgr.Restart()
					}()
					w.c20RestartReturned(err)
				}()
				continue
			case 2:
				d := cs.Saves[len(savedDecls)]
				savedDecls = append(savedDecls, d)
				st.mu.Lock()
				st.inFlight++
				st.restarts++
				st.saved = append(st.saved, d.Name)
				st.mu.Unlock()
				w.stat("c20_saves", 1)
				w.logf("dashboard save %s", d.Name)
				go func() {
					// the integration as the dashboard form would submit it (already validated shape)
					var ig config.Integration
					for _, c := range w.c20SaveConf.Integrations {
						if c.Name == d.Name {
							ig = c
						}
					}
					b, _ := json.Marshal(ig)
					rec := httptest.NewRecorder()
					req := httptest.NewRequest("POST", "/save-integration", bytes.NewReader(b))
					func() {
						defer func() {
							if r := recover(); r != nil {
								w.violate(panicClass(r), "SaveIntegration panicked: %v", r)
							}
						}()
						w.web.SaveIntegration(rec, req)
					}()
					var err error
					if rec.Code != 200 {
						err = fmt.Errorf("save-integration: status %d %s", rec.Code, strings.TrimSpace(rec.Body.String()))
					}
					w.c20RestartReturned(err)
				}()
				continue
			case 3:
				si := w.st.Draw(len(w.plan.Sources), "grow-src")
				w.chainGrow(w.plan.Sources[si].Name, 1+w.st.Draw(2, "grow-n"))
				continue
			case 4:
				// the whole process stalls (or the clock jumps) while
				// whatever is parked stays parked: a restart in flight
				// must still wait for the tasks it is stopping
				d := []time.Duration{time.Second, 11 * time.Second, 61 * time.Second}[w.st.Draw(3, "jump")]
				w.logf("jump %v", d)
				w.stat("time_jump", 1)
				time.Sleep(d)
				continue
			}
		}
		lat := []time.Duration{0, time.Millisecond, 7 * time.Millisecond, 120 * time.Millisecond}[w.st.Draw(4, "latency")]
		w.clock.AdvanceTo(w.step, lat)
		synctest.Wait()
		w.c20Commits()
		pend := w.sched.Collect()
		if len(pend) == 0 {
			// runners asleep (or none): let the clock run to the next timer
			st.mu.Lock()
			liveRunners := 0
			for _, r := range st.runners {
				if r.live {
					liveRunners++
				}
			}
			inFlight := st.inFlight
			st.mu.Unlock()
			if liveRunners == 0 && inFlight == 0 && len(w.c20Verdicts) > 0 {
				if len(w.plan.C15Submit) > 0 && !w.c15Submitted && st.gen > 0 && len(st.runErrs) == 0 {
					// a configuration without any task: the dashboard
					// submission is all that is left to happen
					w.c15Submitted = true
					st.mu.Lock()
					st.inFlight++
					st.restarts++
					st.mu.Unlock()
					w.logf("dashboard submission (C15, nothing running)")
					go w.c15Dashboard()
					w.step--
					continue
				}
				return // startup error or everything done
			}
			idle++
			if idle > 400 {
				return
			}
			select {
			case <-w.sched.Wake():
			case <-time.After(30 * time.Second):
			}
			w.step--
			continue
		}
		idle = 0
		idx := w.st.Draw(len(pend), "pick")
		p := pend[idx]
		if p.Kind == "runner" {
			w.logf("%s", p.Key)
			w.sched.Release(p, nil)
		} else if p.Kind == "lock" && p.LockKind == "manager-running" {
			st.mu.Lock()
			st.gen++
			g := st.gen
			st.mu.Unlock()
			w.logf("run lock granted gen=%d", g)
			w.sched.Release(p, nil)
		} else {
			w.deliver(p)
		}
		synctest.Wait()
		w.c20Commits()
	}
	w.stat("budget_exhausted", 1)
}

func (w *World) c20RestartReturned(err error) {
	st := w.c20
	st.mu.Lock()
	st.inFlight--
	// once a restart has returned successfully, no runner of an older generation is alive
	if err == nil {
		for _, r := range st.runners {
			if r.live && r.gen < st.gen {
				w.violate("old-runner-alive", "Restart returned but the runner of %s/%s from generation %d is still running (current generation %d)", r.src, r.ig, r.gen, st.gen)
			}
		}
	}
	st.mu.Unlock()
	w.c20RunVerdict(err, "restart")
}

// c20Commits: every position-recording transaction belongs to an expected
// pair and respects that pair's start and batch size; requests reach only
// hosts the merged configuration assigns.
func (w *World) c20Commits() {
	w.mu.Lock()
	list := w.commits[w.seenCommit:]
	w.seenCommit = len(w.commits)
	w.mu.Unlock()
	cs := w.plan.C20
	if len(w.plan.ScriptChain) > 0 {
		for i, sc := range w.plan.ScriptChain {
			if w.scriptFired[i] {
				continue
			}
			for k, v := range w.c20Progress {
				if sc.Pair != "" && k != sc.Pair {
					continue
				}
				if v >= sc.AtPos {
					w.scriptFired[i] = true
					if sc.Action == "reorg" {
						w.chainReorg(sc.Src, sc.Depth, sc.NewLen)
					} else {
						w.chainGrow(sc.Src, sc.N)
					}
					break
				}
			}
		}
	}
	for _, ci := range list {
		ts := ci.Snap.Table(cursorTable)
		if ts == nil {
			continue
		}
		for _, r := range ci.Inserted[cursorTable] {
			s, i, ok := stamp(ts.Cols, r)
			if !ok {
				continue
			}
			w.stat("commit_data", 1)
			key := s + "/" + i
			var saved []*model.Decl
			for _, d := range cs.Saves {
				for _, n := range w.c20.saved {
					if n == d.Name {
						saved = append(saved, d)
					}
				}
			}
			exp, _, _ := c20Expected(w.plan, cs, saved)
			d := exp[key]
			if d == nil {
				w.violate("unexpected-pair", "a position was recorded for pair %s which the merged configuration does not contain (or which is disabled)", key)
				continue
			}
			num, _ := valInt(r.Vals[ts.Col("num")])
			w.c20Progress[key] = num
			// an integration that looks up another one's table never records a
			// block the other one has not recorded for the same source
			for _, rn := range w.depsOf(d) {
				have := int64(-1)
				if exp[s+"/"+rn] != nil {
					for _, o := range ts.Rows {
						os, oi, _ := stamp(ts.Cols, o)
						if os == s && oi == rn {
							if n, _ := valInt(o.Vals[ts.Col("num")]); n > have {
								have = n
							}
						}
					}
				}
				w.stat("probe_dependent_position_checked", 1)
				if num > have {
					w.violate("dependent-ahead", "pair %s recorded block %d although the integration it looks up (%s) has recorded %d for that source (-1: nothing / not running there)", key, num, rn, have)
				}
			}
			// "each with that source's settings": the recorded hash is the hash
			// of that block on the pair's own source (these chains only grow,
			// and every source has a chain of its own)
			if ss := w.srcs[s]; ss != nil && ss.node.Reorgs == 0 && num >= 0 {
				h, _ := r.Vals[ts.Col("hash")].([]byte)
				if b := ss.node.Canonical(uint64(num)); b != nil && len(h) == 32 && !bytes.Equal(b.Hash, h) {
					w.violate("wrong-source-data", "pair %s recorded block %d with hash %x, which is not the block of its own source %s (data of another source's node?)", key, num, h[:4], s)
				}
			}
			var ref model.SrcRef
			for _, rf := range d.Sources {
				if rf.Name == s {
					ref = rf
				}
			}
			batch := 1
			for _, sp := range w.plan.Sources {
				if sp.Name == s {
					batch = max(1, sp.Batch)
				}
			}
			first := true
			var prev int64 = -1
			for _, o := range ts.Rows {
				os, oi, _ := stamp(ts.Cols, o)
				if os == s && oi == i && o != r {
					first = false
					if n, _ := valInt(o.Vals[ts.Col("num")]); n > prev && n < num {
						prev = n
					}
				}
			}
			if first && ref.Start > 0 && (num < int64(ref.Start) || num > int64(ref.Start)+int64(batch)-1) {
				w.violate("wrong-start", "pair %s: first recorded position %d does not follow from the configured start %d with batch size %d (settings of another configuration entry?)", key, num, ref.Start, batch)
			}
			if !first && prev >= 0 && num-prev > int64(batch) {
				w.violate("wrong-batch", "pair %s advanced by %d blocks, batch size of source %s is %d", key, num-prev, s, batch)
			}
			if ref.Stop > 0 && num > int64(ref.Stop) {
				w.violate("beyond-stop", "pair %s recorded %d beyond its stop %d", key, num, ref.Stop)
			}
		}
	}
}

func (w *World) c20Final() {
	cs := w.plan.C20
	st := w.c20
	st.mu.Lock()
	defer st.mu.Unlock()
	var saved []*model.Decl
	for _, d := range cs.Saves {
		for _, n := range st.saved {
			if n == d.Name {
				saved = append(saved, d)
			}
		}
	}
	exp, srcHost, experr := c20Expected(w.plan, cs, saved)
	// (a) every request of every task goes to the URL of its own source as the
	// merged configuration defines it (file entries override database entries)
	okHost := map[string]bool{}
	for _, h := range srcHost {
		okHost[h] = true
	}
	var hosts []string
	for h := range st.hostsUsed {
		hosts = append(hosts, h)
	}
	sort.Strings(hosts)
	for _, h := range hosts {
		if !okHost[h] {
			w.violate("wrong-source-url", "a task sent requests to %s, which is not the URL of any source of the merged configuration (file sources override database sources of the same name)", h)
		}
	}
	if experr != "" {
		// (b) unknown source: Run must have reported an error and nothing may have started
		if len(st.runErrs) == 0 {
			w.violate("missing-startup-error", "%s, but Manager.Run reported no error", experr)
		}
		if len(st.runners) > 0 && len(w.c20.saved) == 0 {
			w.violate("started-despite-error", "%s, but %d runners were started", experr, len(st.runners))
		}
		w.stat("probe_unknown_source", 1)
		return
	}
	if len(st.runErrs) > 0 && w.stats["fault_total"] == 0 {
		w.violate("unexpected-run-error", "Manager.Run/Restart reported an error for a valid configuration: %s", st.runErrs[0])
		return
	}
	// (a) the live runners of the newest generation are exactly the expected pairs
	live := map[string]int{}
	for _, r := range st.runners {
		if r.gen == st.gen {
			live[r.src+"/"+r.ig]++
		}
	}
	if st.inFlight == 0 && w.stats["budget_exhausted"] == 0 {
		for k := range exp {
			if live[k] == 0 {
				w.violate("missing-runner", "pair %s is configured and enabled but no runner was started for it in generation %d", k, st.gen)
			}
		}
		for k, n := range live {
			if exp[k] == nil {
				w.violate("unexpected-runner", "a runner was started for pair %s which the merged configuration does not contain (or which is disabled)", k)
			}
			if n > 1 {
				w.violate("two-runners", "pair %s has %d runners in generation %d", k, n, st.gen)
			}
		}
		// (d) every expected pair made progress (stored integrations are picked up)
		if w.stats["budget_exhausted"] == 0 {
			for k, d := range exp {
				src := strings.SplitN(k, "/", 2)[0]
				ss := w.srcs[src]
				var ref model.SrcRef
				for _, rf := range d.Sources {
					if rf.Name == src {
						ref = rf
					}
				}
				if ss == nil || ref.Start == 0 || int64(ref.Start) > int64(ss.node.HeadNum()) {
					continue
				}
				if len(w.depsOf(d)) > 0 {
					// it may have to wait for ever for what it looks up
					continue
				}
				if _, ok := w.c20Progress[k]; !ok {
					w.violate("pair-not-indexed", "pair %s is configured and enabled but never recorded a position", k)
				}
			}
		}
	}
}

// GenC20 builds a random case.
func GenC20(seed uint64) *Plan {
	g := NewG(seed)
	p := g.basePlan("C20", seed)
	sp := &p.Sources[0]
	sp.NURLs = 1
	if sp.ChainID >= 1<<31 {
		// (the sources table of the database cannot hold such an id: known
		// finding F35, shown by the pipeline checks)
		sp.ChainID = uint64(g.between(1, 9999))
	}
	sp.InitLen = g.between(10, 20)
	sp.Batch, sp.Conc = g.between(1, 4), 1
	sp.PollMs = g.pickInt([]int{100, 500})
	if g.chance(40) {
		s2 := *sp
		s2.Name = "s1"
		s2.ChainID = uint64(g.between(1, 9999))
		s2.Batch = g.between(1, 3)
		p.Sources = append(p.Sources, s2)
	}
	p.Content = ContentPlan{TxMax: 2, MinTx: 1, LogMax: 2, EmptyPct: 0, Addrs: []string{"0x00000000000000000000000000000000000000a1"}}
	cs := &C20Case{MaxRestarts: g.between(0, 3), RestartPM: g.pickInt([]int{5, 15, 40}), SavePM: g.pickInt([]int{0, 10, 30}), DoubleRestart: g.chance(30)}
	mk := func(name string, start uint64) *model.Decl {
		src := p.Sources[g.R.IntN(len(p.Sources))]
		d := logDecl(name, start, g.chance(50))
		d.Event.Name = "Transfer"
		d.Sources = []model.SrcRef{{Name: src.Name, Start: start}}
		if g.chance(25) {
			// a stop at or shortly after the start
			d.Sources[0].Stop = start + uint64(g.between(0, 3))
		}
		if len(p.Sources) > 1 && g.chance(30) {
			o := p.Sources[0]
			if o.Name == src.Name {
				o = p.Sources[1]
			}
			d.Sources = append(d.Sources, model.SrcRef{Name: o.Name, Start: uint64(g.between(1, 6))})
		}
		d.Enabled = !g.chance(20)
		return d
	}
	nf := g.between(1, 3)
	for i := 0; i < nf; i++ {
		p.Decls = append(p.Decls, mk(fmt.Sprintf("ig%d", i), uint64(g.between(1, 6))))
	}
	p.Content.Events = []EventSpec{{Event: transferEvent()}}
	// database configuration
	for i := 0; i < g.between(0, 2); i++ {
		name := fmt.Sprintf("dbig%d", i)
		if g.chance(35) {
			name = p.Decls[g.R.IntN(len(p.Decls))].Name // clash: the file entry must win
		}
		d := mk(name, uint64(g.between(7, 9))) // a different start than any file entry
		d.Table.Name = "t_" + name + "_db"
		cs.DBIntegrations = append(cs.DBIntegrations, d)
	}
	if g.chance(40) {
		// a database source clashing with a file source: points at a dead host, the file entry must win
		// (with the same chain id, or with a smaller or larger one)
		cid := int(sp.ChainID)
		switch g.R.IntN(3) {
		case 1:
			cid = int(sp.ChainID) + g.between(1, 50)
		case 2:
			cid = max(1, int(sp.ChainID)-g.between(1, 50))
		}
		cs.DBSources = append(cs.DBSources, C20DBSource{Name: sp.Name, ChainID: cid, URL: "http://dead-g0-r0.sim"})
	}
	if g.chance(30) {
		// a source that exists only in the database, used by a file or database integration
		cs.DBSources = append(cs.DBSources, C20DBSource{Name: "dbs", ChainID: g.between(1, 9999), URL: "http://" + hostFor("dbs", 0, 0)})
		d := mk("igdbs", uint64(g.between(1, 5)))
		d.Enabled = true
		d.Sources = []model.SrcRef{{Name: "dbs", Start: uint64(g.between(1, 5))}}
		if g.chance(50) {
			p.Decls = append(p.Decls, d)
		} else {
			d.Table.Name = "t_igdbs_db"
			cs.DBIntegrations = append(cs.DBIntegrations, d)
		}
	}
	if g.chance(15) {
		// reference to an unknown source: startup error
		bad := mk("igbad", 2)
		bad.Enabled = true
		bad.Sources = []model.SrcRef{{Name: "nosuch", Start: 2}}
		if g.chance(50) {
			p.Decls = append(p.Decls, bad)
		} else {
			bad.Table.Name = "t_igbad_db"
			cs.DBIntegrations = append(cs.DBIntegrations, bad)
		}
		cs.ExpectRunError = true
	}
	if !cs.ExpectRunError && g.chance(30) {
		// two database-stored integrations, the second one filtered by a
		// lookup in the first one's table: what it has to wait for travels in
		// the stored configuration only. The referenced one is switched off or
		// ends early, so the dependent has to stop short of the head.
		ref := mk("dbref", uint64(g.between(1, 3)))
		ref.Sources = ref.Sources[:1]
		ref.Table.Name = "t_dbref_db"
		ref.Enabled = g.chance(50)
		ref.Sources[0].Stop = ref.Sources[0].Start + uint64(g.between(0, 3))
		dep := mk("dbdep", uint64(g.between(1, 3)))
		dep.Enabled = true
		dep.Table.Name = "t_dbdep_db"
		dep.Sources = []model.SrcRef{{Name: ref.Sources[0].Name, Start: dep.Sources[0].Start}}
		dep.Event.Inputs[0].Filter = &model.Filter{Op: "contains", Ref: &model.Ref{Integration: "dbref", Column: ref.Event.Inputs[0].Column}}
		cs.DBIntegrations = append(cs.DBIntegrations, ref, dep)
	}
	for i := 0; i < g.between(0, 2); i++ {
		d := mk(fmt.Sprintf("saved%d", i), uint64(g.between(1, 5)))
		d.Enabled = true
		cs.Saves = append(cs.Saves, d)
	}
	p.C20 = cs
	p.Checks["permute_integrations"] = true
	if !cs.ExpectRunError && len(cs.DBSources) == 0 && g.chance(15) {
		// free-running layer: real time, no hooks, several dashboard saves a
		// few hundred microseconds apart
		p.FreeSteps = 1
		for _, i := range []int{0, 1} {
			if i < len(p.Sources) {
				p.Sources[i].PollMs = g.between(2, 5)
			}
		}
		for len(cs.Saves) < 2 {
			d := mk(fmt.Sprintf("saved%d", len(cs.Saves)), uint64(g.between(1, 5)))
			d.Enabled = true
			cs.Saves = append(cs.Saves, d)
		}
		p.Checks["permute_integrations"] = false
	}
	p.Faults = FaultPlan{HealAt: g.between(200, 900), GrowPerMille: 20, MaxGrow: 10}
	if g.chance(50) {
		p.Faults.JumpPerMille = 15
	}
	p.MaxSteps = 2500
	return p
}

func init() {
	Generators["C20"] = GenC20
	Runners["C20"] = func(t *testing.T, plan *Plan, st *core.Stream, extra Extra, keepLog bool) *Result {
		if plan.FreeSteps > 0 {
			return RunC20Free(t, plan, st, extra, keepLog)
		}
		return RunC20(t, plan, st, extra, keepLog)
	}
}
