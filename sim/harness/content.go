package harness

import (
	"encoding/binary"
	"encoding/hex"
	"fmt"
	"math/big"
	"math/rand/v2"
	"strings"

	"verifsim/model"
	"verifsim/node"
)

// blockRNG derives a PRNG from (seed, source, number, version): block contents
// never consume the decision stream, so they are stable under shrinking.
func blockRNG(seed uint64, src string, num uint64, version int) *rand.Rand {
	var buf [24]byte
	binary.BigEndian.PutUint64(buf[0:], seed)
	binary.BigEndian.PutUint64(buf[8:], num)
	binary.BigEndian.PutUint64(buf[16:], uint64(version))
	h := node.Keccak([]byte("content"), []byte(src), buf[:])
	return rand.New(rand.NewPCG(binary.BigEndian.Uint64(h[0:8]), binary.BigEndian.Uint64(h[8:16])))
}

func randBytes(r *rand.Rand, n int) []byte {
	b := make([]byte, n)
	for i := range b {
		b[i] = byte(r.IntN(256))
	}
	return b
}

func nonZeroBytes(r *rand.Rand, n int) []byte {
	b := randBytes(r, n)
	if n > 0 {
		b[0] |= 1
		b[n-1] |= 1
	}
	return b
}

var bigOne = big.NewInt(1)

func boolToInt(b bool) int {
	if b {
		return 1
	}
	return 0
}

// interesting integer patterns for a bit width
func randInt(r *rand.Rand, bits int, signed bool) *big.Int {
	max := new(big.Int).Lsh(bigOne, uint(bits))
	switch r.IntN(10) {
	case 8, 9:
		// around the machine-word boundaries inside the type's range:
		// +-(2^k + d), k in {7,8,15,16,31,32,63,64,127,128}, d in [-2,2], and
		// a random magnitude just above/below 2^k
		ks := []uint{7, 8, 15, 16, 31, 32, 63, 64, 127, 128, 255}
		k := ks[r.IntN(len(ks))]
		v := new(big.Int).Lsh(bigOne, k)
		if r.IntN(2) == 0 {
			v.Add(v, big.NewInt(int64(r.IntN(5)-2)))
		} else if k >= 8 {
			// 2^k <= v < 2^(k+1) at random
			off := new(big.Int).SetBytes(randBytes(r, int(k+7)/8))
			off.Mod(off, new(big.Int).Lsh(bigOne, k))
			v.Add(v, off)
		}
		if signed && r.IntN(2) == 0 {
			v.Neg(v)
		}
		lo, hi := big.NewInt(0), new(big.Int).Sub(max, bigOne)
		if signed {
			half := new(big.Int).Lsh(bigOne, uint(bits-1))
			lo, hi = new(big.Int).Neg(half), new(big.Int).Sub(half, bigOne)
		}
		if v.Cmp(lo) >= 0 && v.Cmp(hi) <= 0 {
			return v
		}
		return big.NewInt(int64(r.IntN(3)-1) * int64(boolToInt(signed)))
	case 0:
		return big.NewInt(0)
	case 1:
		return big.NewInt(1)
	case 2:
		if signed {
			return big.NewInt(-1)
		}
		return new(big.Int).Sub(max, bigOne) // max unsigned
	case 3:
		if signed { // min
			return new(big.Int).Neg(new(big.Int).Lsh(bigOne, uint(bits-1)))
		}
		return new(big.Int).Sub(max, bigOne)
	case 4:
		if signed { // max signed
			return new(big.Int).Sub(new(big.Int).Lsh(bigOne, uint(bits-1)), bigOne)
		}
		return new(big.Int).Rsh(max, 1)
	}
	v := new(big.Int).SetBytes(randBytes(r, (bits+7)/8))
	v.Mod(v, max)
	if signed {
		half := new(big.Int).Lsh(bigOne, uint(bits-1))
		if v.Cmp(half) >= 0 {
			v.Sub(v, max)
		}
	}
	return v
}

func bitsOf(t, prefix string) int {
	s := strings.TrimPrefix(t, prefix)
	if s == "" {
		return 256
	}
	n := 0
	fmt.Sscanf(s, "%d", &n)
	if n == 0 {
		return 256
	}
	return n
}

// RandValue generates a value for an input type in the supported domain.
func RandValue(r *rand.Rand, in model.Input, addrs [][]byte) model.AV {
	t := in.Type
	if strings.HasSuffix(t, "]") {
		i := strings.LastIndex(t, "[")
		inner := t[i+1 : len(t)-1]
		el := in
		el.Type = t[:i]
		n := 1 + r.IntN(3)
		if r.IntN(25) == 0 {
			// now and then a long array (more rows per log than any small constant)
			n = 9 + r.IntN(14)
		}
		if inner != "" {
			fmt.Sscanf(inner, "%d", &n)
		}
		v := model.AV{Type: t}
		for k := 0; k < n; k++ {
			v.Elems = append(v.Elems, RandValue(r, el, addrs))
		}
		return v
	}
	switch {
	case model.IsTuple(t):
		v := model.AV{Type: t}
		for _, c := range in.Components {
			v.Elems = append(v.Elems, RandValue(r, c, addrs))
		}
		return v
	case strings.HasPrefix(t, "uint"):
		return model.AV{Type: t, Int: randInt(r, bitsOf(t, "uint"), false)}
	case strings.HasPrefix(t, "int"):
		return model.AV{Type: t, Int: randInt(r, bitsOf(t, "int"), true)}
	case t == "bool":
		return model.AV{Type: t, Int: big.NewInt(int64(r.IntN(2)))}
	case t == "address":
		if len(addrs) > 0 && r.IntN(2) == 0 {
			return model.AV{Type: t, Bytes: addrs[r.IntN(len(addrs))]}
		}
		return model.AV{Type: t, Bytes: randBytes(r, 20)}
	case t == "string":
		n := r.IntN(40)
		if r.IntN(5) == 0 {
			n = 0
		}
		const alpha = "abcdefghijklmnopqrstuvwxyz0123456789 _-'\";,()"
		b := make([]byte, n)
		for i := range b {
			b[i] = alpha[r.IntN(len(alpha))]
		}
		return model.AV{Type: t, Str: string(b)}
	case t == "bytes":
		n := r.IntN(70)
		if r.IntN(5) == 0 {
			n = 0
		}
		return model.AV{Type: t, Bytes: randBytes(r, n)}
	case strings.HasPrefix(t, "bytes"):
		n := 32
		fmt.Sscanf(strings.TrimPrefix(t, "bytes"), "%d", &n)
		return model.AV{Type: t, Bytes: randBytes(r, n)}
	}
	panic("RandValue: unsupported type " + t)
}

func decodeAddrs(hexes []string) [][]byte {
	var out [][]byte
	for _, h := range hexes {
		b, _ := hex.DecodeString(strings.TrimPrefix(h, "0x"))
		out = append(out, b)
	}
	return out
}

// MakeFiller returns the block filler for one source.
func MakeFiller(p *Plan, src string) node.Filler {
	c := p.Content
	addrs := decodeAddrs(c.Addrs)
	var lateAddrs [][]byte
	for _, la := range c.Late {
		lateAddrs = append(lateAddrs, decodeAddrs([]string{la.Addr})[0])
	}
	return func(b *node.Block) {
		r := blockRNG(p.Seed, src, b.Num, b.Version)
		var seeded []node.Tx
		for k, la := range c.Late {
			if b.Num != la.At || r.IntN(100) >= la.Pct {
				continue
			}
			tx := node.Tx{Hash: node.Keccak([]byte("latetx"), b.Hash, []byte{byte(k)}), From: nonZeroBytes(r, 20), To: nonZeroBytes(r, 20), Input: []byte{1}, Value: big.NewInt(0), GasPrice: big.NewInt(1), EffGasPrice: big.NewInt(1), Status: 1}
			vals := make([]model.AV, len(la.Event.Inputs))
			for i, in := range la.Event.Inputs {
				vals[i] = RandValue(r, in, nil)
			}
			vals[la.AddrInput] = model.AV{Type: "address", Bytes: lateAddrs[k]}
			l := node.Log{Addr: nonZeroBytes(r, 20)}
			l.Topics, l.Data = model.EncodeLog(la.Event, vals)
			l.Tag = &model.LogTag{Sig: model.Signature(la.Event), NIdx: model.NumIndexed(la.Event), Values: vals}
			tx.Logs = append(tx.Logs, l)
			seeded = append(seeded, tx)
		}
		// the pool other events draw from: late addresses only above their block
		pool := addrs
		for k, la := range c.Late {
			if b.Num > la.At {
				pool = append(pool[:len(pool):len(pool)], lateAddrs[k])
			}
		}
		for _, sd := range c.Seeded {
			if b.Num < 1 || b.Num > sd.UpTo || b.Num != 1+uint64(len(seeded))%sd.UpTo && false {
				continue
			}
			tx := node.Tx{Hash: node.Keccak([]byte("seedtx"), b.Hash, []byte(sd.Event.Name)), From: nonZeroBytes(r, 20), To: nonZeroBytes(r, 20), Input: []byte{1}, Value: big.NewInt(0), GasPrice: big.NewInt(1), EffGasPrice: big.NewInt(1), Status: 1}
			for ai, a := range addrs {
				if len(sd.Only) > 0 {
					in := false
					for _, k := range sd.Only {
						if k == ai {
							in = true
						}
					}
					if !in {
						continue
					}
				}
				vals := make([]model.AV, len(sd.Event.Inputs))
				for i, in := range sd.Event.Inputs {
					vals[i] = RandValue(r, in, nil)
				}
				vals[sd.AddrInput] = model.AV{Type: "address", Bytes: a}
				l := node.Log{Addr: addrs[(ai+1)%len(addrs)]}
				l.Topics, l.Data = model.EncodeLog(sd.Event, vals)
				l.Tag = &model.LogTag{Sig: model.Signature(sd.Event), NIdx: model.NumIndexed(sd.Event), Values: vals}
				tx.Logs = append(tx.Logs, l)
			}
			seeded = append(seeded, tx)
		}
		defer func() {
			if len(seeded) == 0 {
				return
			}
			b.Txs = append(b.Txs, seeded...)
			li := uint64(0)
			for ti := range b.Txs {
				b.Txs[ti].Idx = uint64(ti)
				for k := range b.Txs[ti].Logs {
					b.Txs[ti].Logs[k].Idx = li
					li++
				}
			}
		}()
		if c.MinTx == 0 && r.IntN(100) < c.EmptyPct {
			return
		}
		ntx := c.MinTx
		if c.TxMax > c.MinTx {
			ntx += r.IntN(c.TxMax - c.MinTx + 1)
		}
		logIdx := uint64(0)
		for ti := 0; ti < ntx; ti++ {
			tx := node.Tx{Idx: uint64(ti)}
			tx.Hash = node.Keccak([]byte("tx"), b.Hash, []byte{byte(ti)})
			tx.From = nonZeroBytes(r, 20)
			tx.To = nonZeroBytes(r, 20)
			tx.Input = nonZeroBytes(r, 4+r.IntN(40))
			if c.PoolTxPct > 0 && len(addrs) > 0 {
				if r.IntN(100) < c.PoolTxPct {
					tx.To = addrs[r.IntN(len(addrs))]
				}
				if r.IntN(100) < c.PoolTxPct {
					tx.From = addrs[r.IntN(len(addrs))]
				}
			}
			if c.Distinct {
				// fee caps come with every dynamic-fee type (1559, blob, set-code)
				tx.Type = byte(2 + r.IntN(3))
				tx.Nonce = 1 + r.Uint64N(1<<40)
				tx.Value = new(big.Int).Add(randInt(r, 100, false), bigOne)
				tx.GasPrice = new(big.Int).Add(randInt(r, 60, false), big.NewInt(3))
				tx.MaxPrio = new(big.Int).Add(randInt(r, 50, false), big.NewInt(5))
				tx.MaxFee = new(big.Int).Add(randInt(r, 55, false), big.NewInt(7))
				tx.Gas = 21000 + r.Uint64N(1<<20)
				tx.Status = 1
				tx.GasUsed = 1 + r.Uint64N(1<<30)
				if r.IntN(6) == 0 {
					// quantities that need all sixteen hex digits
					tx.Nonce = ^uint64(0) - r.Uint64N(1<<20)
					tx.GasUsed = 1<<60 + r.Uint64N(1<<62)
				}
				tx.EffGasPrice = new(big.Int).Add(randInt(r, 58, false), big.NewInt(11))
				tx.ContractAddr = nonZeroBytes(r, 20)
			} else {
				tx.Type = byte(r.IntN(5))
				tx.Nonce = r.Uint64N(1 << 32)
				tx.Value = randInt(r, 128, false)
				tx.GasPrice = randInt(r, 64, false)
				if tx.Type >= 2 { // dynamic-fee transactions (1559, blob, set-code) carry fee caps
					tx.MaxPrio = randInt(r, 40, false)
					tx.MaxFee = randInt(r, 48, false)
				}
				tx.Gas = 21000 + r.Uint64N(1<<20)
				tx.Status = byte(r.IntN(2))
				tx.GasUsed = r.Uint64N(1 << 30)
				if r.IntN(8) == 0 {
					// quantities that need all sixteen hex digits
					tx.Nonce = ^uint64(0) - r.Uint64N(1<<20)
					tx.GasUsed = 1<<60 + r.Uint64N(1<<62)
				}
				tx.EffGasPrice = randInt(r, 64, false)
				if r.IntN(4) == 0 {
					tx.ContractAddr = nonZeroBytes(r, 20)
					if r.IntN(2) == 0 {
						// a contract creation: no recipient ("to": null)
						tx.To = nil
					}
				}
			}
			nlogs := 0
			if c.LogMax > 0 {
				nlogs = r.IntN(c.LogMax + 1)
			}
			if nlogs < c.MinLogs {
				nlogs = c.MinLogs
			}
			for li := 0; li < nlogs && len(c.Events) > 0; li++ {
				es := c.Events[r.IntN(len(c.Events))]
				l := node.Log{Idx: logIdx}
				logIdx++
				if len(addrs) > 0 && r.IntN(3) != 0 {
					l.Addr = addrs[r.IntN(len(addrs))]
				} else {
					l.Addr = nonZeroBytes(r, 20)
				}
				vals := make([]model.AV, len(es.Event.Inputs))
				for i, in := range es.Event.Inputs {
					use := pool
					if len(c.Late) > 0 {
						// an event that feeds a referenced table (it has a seeding
						// or late rule) never carries a late address on its own:
						// the only creation of a late address is its rule's
						for _, la := range c.Late {
							if la.Event.Name == es.Event.Name {
								use = addrs
							}
						}
						for _, sd := range c.Seeded {
							if sd.Event.Name == es.Event.Name {
								use = addrs
							}
						}
					}
					for _, sd := range c.Seeded {
						if len(sd.Only) > 0 && sd.AddrInput == i && sd.Event.Name == es.Event.Name {
							// a referenced table seeded with part of the pool keeps
							// that membership: later logs of the event only repeat
							// seeded addresses (or carry addresses outside the pool)
							use = nil
							for _, k := range sd.Only {
								if k < len(addrs) {
									use = append(use, addrs[k])
								}
							}
						}
					}
					vals[i] = RandValue(r, in, use)
					if len(use) > len(addrs) && in.Type == "address" && r.IntN(100) < 35 {
						// late addresses are looked up often, right above their block
						vals[i] = model.AV{Type: "address", Bytes: use[len(addrs)+r.IntN(len(use)-len(addrs))]}
					}
					if c.MarkStrings && in.Type == "string" {
						vals[i].Str = c15Marker + vals[i].Str
					}
				}
				l.Topics, l.Data = model.EncodeLog(es.Event, vals)
				l.Tag = &model.LogTag{Sig: model.Signature(es.Event), NIdx: model.NumIndexed(es.Event), Values: vals}
				// occasionally an empty-topic log (anonymous event style decoy)
				if es.Decoy && r.IntN(6) == 0 {
					l.Topics = nil
					l.Tag = nil
				}
				tx.Logs = append(tx.Logs, l)
			}
			ntr := c.MinTraces
			if c.TraceMax > c.MinTraces {
				ntr += r.IntN(c.TraceMax - c.MinTraces + 1)
			}
			for k := 0; k < ntr; k++ {
				tr := node.Trace{From: nonZeroBytes(r, 20), To: nonZeroBytes(r, 20), CallType: []string{"call", "delegatecall", "staticcall"}[r.IntN(3)]}
				if c.Distinct {
					tr.Value = new(big.Int).Add(randInt(r, 90, false), big.NewInt(13))
				} else {
					tr.Value = randInt(r, 96, false)
				}
				tx.Traces = append(tx.Traces, tr)
			}
			b.Txs = append(b.Txs, tx)
		}
	}
}
