// Package node is the simulated Ethereum node: a forkable chain model served
// over JSON-RPC (single and batch requests) with geth-style encodings.
package node

import (
	"encoding/binary"
	"encoding/hex"
	"encoding/json"
	"fmt"
	"math/big"
	"strconv"
	"strings"

	"golang.org/x/crypto/sha3"
)

func Keccak(d ...[]byte) []byte {
	k := sha3.NewLegacyKeccak256()
	for _, b := range d {
		k.Write(b)
	}
	return k.Sum(nil)
}

type Log struct {
	Idx    uint64
	Addr   []byte
	Topics [][]byte
	Data   []byte
	// Tag is opaque to the node: generators attach what the oracle needs
	// (e.g. which declaration the log was made for and its values).
	Tag any
}

type Trace struct {
	From, To []byte
	CallType string
	Value    *big.Int
}

type Tx struct {
	Idx          uint64
	Hash         []byte
	Type         byte
	Nonce        uint64
	From, To     []byte
	Value        *big.Int
	Input        []byte
	GasPrice     *big.Int
	MaxPrio      *big.Int
	MaxFee       *big.Int
	Gas          uint64
	Status       byte
	GasUsed      uint64
	EffGasPrice  *big.Int
	ContractAddr []byte
	Logs         []Log
	Traces       []Trace
}

type Block struct {
	Num     uint64
	Hash    []byte
	Parent  []byte
	Time    uint64
	Txs     []Tx
	Version int // 0 for the first block at this height, +1 per replacement
}

// Filler populates the transactions of a new block version.
type Filler func(b *Block)

type ReqRecord struct {
	Seq     int
	URL     string
	Method  string
	Block   string   // block parameter (hex or "latest") for block-addressed calls
	Full    bool     // eth_getBlockByNumber second param
	From    uint64   // eth_getLogs
	To      uint64   // eth_getLogs
	Addrs   []string // eth_getLogs address restriction (lower hex, no 0x)
	Topics  [][]string
	Served  []string // hashes (hex) of block versions used to answer
	HeadNum uint64   // canonical head when answered
	Null    bool     // answered null / empty because unknown
}

type Node struct {
	Name    string
	ChainID uint64
	Seed    uint64
	fill    Filler

	canon    []*Block          // index = block number
	ByHash   map[string]*Block // every version ever created
	versions map[uint64]int    // next version per height
	Reqs     []ReqRecord
	// Announced lists every (num, hash) served in answer to a "latest" query.
	Announced map[string]bool
	// Now is set by the simulator before it lets the node serve (scheduler
	// step); AnnouncedAt remembers at which steps each head was announced.
	Now         int
	AnnouncedAt map[string][]int

	// EmptyTraceOK: when false, trace_block on a block without traces still
	// returns a synthetic "reward"-style entry; see Conventions in DESIGN §11.
	Reorgs    int
	MinForkAt uint64 // lowest fork point so far (MaxUint64 if none)

	// ViewLag is set by the simulator before it lets the node serve: the
	// request is answered by a replica that has not seen the newest ViewLag
	// blocks yet (unknown block => null, logs only up to its own head,
	// "latest" = its own head).
	ViewLag int
	// viewFloor: what the answering replica knew when the request arrived. A
	// chain event in the middle of a batch never makes it forget blocks that
	// stay canonical (it is cut back to the fork point only).
	viewFloor int

	// Quiet: serve without recording anything (no request log, no announced
	// heads). With a frozen chain, serving is then read-only and may be
	// called from many goroutines at once without any lock (free-running
	// race-detector runs: the node must not order the tasks).
	Quiet bool
}

func New(name string, chainID, seed uint64, fill Filler) *Node {
	return &Node{Name: name, ChainID: chainID, Seed: seed, fill: fill, ByHash: map[string]*Block{}, versions: map[uint64]int{}, Announced: map[string]bool{}, MinForkAt: ^uint64(0)}
}

func (n *Node) mkBlock(num uint64) *Block {
	v := n.versions[num]
	n.versions[num] = v + 1
	b := &Block{Num: num, Version: v}
	var buf [24]byte
	binary.BigEndian.PutUint64(buf[0:], n.Seed)
	binary.BigEndian.PutUint64(buf[8:], num)
	binary.BigEndian.PutUint64(buf[16:], uint64(v))
	b.Hash = Keccak([]byte("block"), []byte(n.Name), buf[:])
	if num > 0 && int(num) <= len(n.canon) {
		b.Parent = n.canon[num-1].Hash
	} else {
		b.Parent = make([]byte, 32)
	}
	b.Time = 1_600_000_000 + num*12 + uint64(v)
	if n.fill != nil {
		n.fill(b)
	}
	for i := range b.Txs {
		b.Txs[i].Idx = uint64(i)
	}
	n.ByHash[hex.EncodeToString(b.Hash)] = b
	return b
}

// Grow appends k blocks to the canonical chain.
func (n *Node) Grow(k int) {
	for i := 0; i < k; i++ {
		b := n.mkBlock(uint64(len(n.canon)))
		n.canon = append(n.canon, b)
	}
}

// Reorg replaces the top `depth` blocks by newLen fresh versions.
func (n *Node) Reorg(depth, newLen int) {
	if depth >= len(n.canon) {
		depth = len(n.canon) - 1
	}
	if depth <= 0 {
		return
	}
	fork := uint64(len(n.canon) - depth)
	if fork < n.MinForkAt {
		n.MinForkAt = fork
	}
	n.canon = n.canon[:len(n.canon)-depth]
	if n.viewFloor > len(n.canon) {
		n.viewFloor = len(n.canon)
	}
	n.Reorgs++
	n.Grow(newLen)
}

func (n *Node) Head() *Block {
	if len(n.canon) == 0 {
		return nil
	}
	return n.canon[len(n.canon)-1]
}

func (n *Node) HeadNum() uint64 { return uint64(len(n.canon) - 1) }

func (n *Node) Canonical(num uint64) *Block {
	if num >= uint64(len(n.canon)) {
		return nil
	}
	return n.canon[num]
}

func (n *Node) IsCanonical(hash []byte) bool {
	b := n.ByHash[hex.EncodeToString(hash)]
	return b != nil && n.Canonical(b.Num) == b
}

// ---- JSON-RPC ----

type Request struct {
	ID      json.RawMessage   `json:"id"`
	Version string            `json:"jsonrpc"`
	Method  string            `json:"method"`
	Params  []json.RawMessage `json:"params"`
}

type RPCError struct {
	Code    int    `json:"code"`
	Message string `json:"message"`
}

type Reply struct {
	ID     json.RawMessage `json:"id"`
	Result json.RawMessage `json:"result,omitempty"`
	Error  *RPCError       `json:"error,omitempty"`
}

// OmitResult as a Reply's Result: the element is written without a result
// member (and without an error).
var OmitResult = json.RawMessage("\x00")

func (r Reply) MarshalJSON() ([]byte, error) {
	var sb strings.Builder
	sb.WriteString(`{"jsonrpc":"2.0","id":`)
	if len(r.ID) == 0 {
		sb.WriteString("null")
	} else {
		sb.Write(r.ID)
	}
	if r.Error != nil {
		e, _ := json.Marshal(r.Error)
		sb.WriteString(`,"error":`)
		sb.Write(e)
	} else if string(r.Result) == string(OmitResult) {
		// neither a result nor an error member
	} else {
		sb.WriteString(`,"result":`)
		if len(r.Result) == 0 {
			sb.WriteString("null")
		} else {
			sb.Write(r.Result)
		}
	}
	sb.WriteString("}")
	return []byte(sb.String()), nil
}

// ParseBody decodes a single or batch request body.
func ParseBody(body []byte) (reqs []Request, batch bool, err error) {
	t := strings.TrimSpace(string(body))
	if strings.HasPrefix(t, "[") {
		err = json.Unmarshal([]byte(t), &reqs)
		return reqs, true, err
	}
	var r Request
	err = json.Unmarshal([]byte(t), &r)
	return []Request{r}, false, err
}

// Summary is an id-free description of a request body for scheduling keys.
func Summary(reqs []Request) string {
	var parts []string
	for i, r := range reqs {
		if i >= 3 {
			parts = append(parts, fmt.Sprintf("+%d", len(reqs)-i))
			break
		}
		p := r.Method
		for _, pr := range r.Params {
			s := string(pr)
			if len(s) > 120 {
				s = s[:120]
			}
			p += " " + s
		}
		parts = append(parts, p)
	}
	return fmt.Sprintf("n=%d %s", len(reqs), strings.Join(parts, "; "))
}

// Serve answers each request in order. between(i) is called before element i
// (i ≥ 1) is answered so that the simulator can land a chain event inside a batch.
func (n *Node) Serve(url string, reqs []Request, between func(i int)) []Reply {
	out := make([]Reply, len(reqs))
	if n.ViewLag > 0 {
		// (never in Quiet mode, where Serve runs on many goroutines at once
		// and must not write to the node)
		n.viewFloor = n.viewLen()
		defer func() { n.viewFloor = 0 }()
	}
	for i, r := range reqs {
		if i > 0 && between != nil {
			between(i)
		}
		out[i] = n.serveOne(url, r)
	}
	return out
}

func hx(b []byte) string { return "0x" + hex.EncodeToString(b) }
func hq(n uint64) string { return "0x" + strconv.FormatUint(n, 16) }
func hbig(b *big.Int) string {
	if b == nil {
		return "0x0"
	}
	return "0x" + b.Text(16)
}

func parseQuantity(s string) (uint64, error) {
	s = strings.TrimPrefix(s, "0x")
	return strconv.ParseUint(s, 16, 64)
}

func (n *Node) serveOne(url string, r Request) Reply {
	rec := ReqRecord{URL: url, Method: r.Method, HeadNum: n.HeadNum()}
	if !n.Quiet {
		rec.Seq = len(n.Reqs)
	}
	rep := Reply{ID: r.ID}
	defer func() {
		if !n.Quiet {
			n.Reqs = append(n.Reqs, rec)
		}
	}()
	bad := func(msg string) Reply {
		rep.Error = &RPCError{Code: -32602, Message: msg}
		return rep
	}
	blockParam := func(i int) (*Block, bool, error) {
		if len(r.Params) <= i {
			return nil, false, fmt.Errorf("missing block param")
		}
		var s string
		if err := json.Unmarshal(r.Params[i], &s); err != nil {
			return nil, false, err
		}
		rec.Block = s
		if s == "latest" {
			return n.canon[n.viewLen()-1], true, nil
		}
		num, err := parseQuantity(s)
		if err != nil {
			return nil, false, err
		}
		if num >= uint64(n.viewLen()) {
			return nil, false, nil
		}
		return n.Canonical(num), false, nil
	}
	switch r.Method {
	case "eth_getBlockByNumber":
		b, latest, err := blockParam(0)
		if err != nil {
			return bad(err.Error())
		}
		full := false
		if len(r.Params) > 1 {
			json.Unmarshal(r.Params[1], &full)
		}
		rec.Full = full
		if b == nil {
			rec.Null = true
			rep.Result = json.RawMessage("null")
			return rep
		}
		rec.Served = []string{hex.EncodeToString(b.Hash)}
		if latest {
			n.announce(b)
		}
		rep.Result = n.blockJSON(b, full)
	case "eth_getLogs":
		if len(r.Params) < 1 {
			return bad("missing filter")
		}
		var f struct {
			From    string            `json:"fromBlock"`
			To      string            `json:"toBlock"`
			Address json.RawMessage   `json:"address"`
			Topics  []json.RawMessage `json:"topics"`
		}
		if err := json.Unmarshal(r.Params[0], &f); err != nil {
			return bad(err.Error())
		}
		from, err := parseQuantity(f.From)
		if err != nil {
			return bad("fromBlock")
		}
		to, err := parseQuantity(f.To)
		if err != nil {
			return bad("toBlock")
		}
		rec.From, rec.To = from, to
		var addrs []string
		if len(f.Address) > 0 && string(f.Address) != "null" {
			var one string
			if json.Unmarshal(f.Address, &one) == nil {
				addrs = []string{one}
			} else if err := json.Unmarshal(f.Address, &addrs); err != nil {
				return bad("address")
			}
		}
		for i := range addrs {
			addrs[i] = strings.ToLower(strings.TrimPrefix(addrs[i], "0x"))
		}
		rec.Addrs = addrs
		var topics [][]string
		for _, raw := range f.Topics {
			var set []string
			if string(raw) == "null" {
				topics = append(topics, nil)
				continue
			}
			var one string
			if json.Unmarshal(raw, &one) == nil {
				set = []string{one}
			} else if err := json.Unmarshal(raw, &set); err != nil {
				return bad("topics")
			}
			for i := range set {
				set[i] = strings.ToLower(strings.TrimPrefix(set[i], "0x"))
			}
			topics = append(topics, set)
		}
		rec.Topics = topics
		var sb strings.Builder
		sb.WriteString("[")
		first := true
		for num := from; num <= to && num < uint64(n.viewLen()); num++ {
			b := n.canon[num]
			rec.Served = append(rec.Served, hex.EncodeToString(b.Hash))
			for ti := range b.Txs {
				tx := &b.Txs[ti]
				for li := range tx.Logs {
					l := &tx.Logs[li]
					if !MatchLog(l, addrs, topics) {
						continue
					}
					if !first {
						sb.WriteString(",")
					}
					first = false
					sb.WriteString(logJSON(b, tx, l))
				}
			}
			if num == ^uint64(0) {
				break
			}
		}
		sb.WriteString("]")
		rep.Result = json.RawMessage(sb.String())
	case "eth_getBlockReceipts":
		b, _, err := blockParam(0)
		if err != nil {
			return bad(err.Error())
		}
		if b == nil {
			rec.Null = true
			rep.Result = json.RawMessage("null")
			return rep
		}
		rec.Served = []string{hex.EncodeToString(b.Hash)}
		var sb strings.Builder
		sb.WriteString("[")
		for ti := range b.Txs {
			tx := &b.Txs[ti]
			if ti > 0 {
				sb.WriteString(",")
			}
			var logs []string
			for li := range tx.Logs {
				logs = append(logs, logJSON(b, tx, &tx.Logs[li]))
			}
			ca := "null"
			if len(tx.ContractAddr) > 0 {
				ca = `"` + hx(tx.ContractAddr) + `"`
			}
			to := "null"
			if len(tx.To) > 0 {
				to = `"` + hx(tx.To) + `"`
			}
			fmt.Fprintf(&sb, `{"blockHash":"%s","blockNumber":"%s","transactionHash":"%s","transactionIndex":"%s","type":"%s","from":"%s","to":%s,"status":"%s","gasUsed":"%s","cumulativeGasUsed":"0x0","effectiveGasPrice":"%s","contractAddress":%s,"logs":[%s],"logsBloom":"0x00"}`,
				hx(b.Hash), hq(b.Num), hx(tx.Hash), hq(tx.Idx), hq(uint64(tx.Type)), hx(tx.From), to, hq(uint64(tx.Status)), hq(tx.GasUsed), hbig(tx.EffGasPrice), ca, strings.Join(logs, ","))
		}
		sb.WriteString("]")
		rep.Result = json.RawMessage(sb.String())
	case "trace_block":
		b, _, err := blockParam(0)
		if err != nil {
			return bad(err.Error())
		}
		if b == nil {
			rec.Null = true
			rep.Result = json.RawMessage("null")
			return rep
		}
		rec.Served = []string{hex.EncodeToString(b.Hash)}
		var sb strings.Builder
		sb.WriteString("[")
		first := true
		for ti := range b.Txs {
			tx := &b.Txs[ti]
			for _, tr := range tx.Traces {
				if !first {
					sb.WriteString(",")
				}
				first = false
				fmt.Fprintf(&sb, `{"action":{"from":"%s","callType":"%s","gas":"0x0","input":"0x","to":"%s","value":"%s"},"blockHash":"%s","blockNumber":%d,"result":{"gasUsed":"0x0","output":"0x"},"subtraces":0,"traceAddress":[],"transactionHash":"%s","transactionPosition":%d,"type":"call"}`,
					hx(tr.From), tr.CallType, hx(tr.To), hbig(tr.Value), hx(b.Hash), b.Num, hx(tx.Hash), tx.Idx)
			}
		}
		sb.WriteString("]")
		rep.Result = json.RawMessage(sb.String())
	case "eth_chainId":
		rep.Result = json.RawMessage(`"` + hq(n.ChainID) + `"`)
	default:
		rep.Error = &RPCError{Code: -32601, Message: "the method " + r.Method + " does not exist/is not available"}
	}
	return rep
}

// MatchLog applies eth_getLogs address/topic semantics.
func MatchLog(l *Log, addrs []string, topics [][]string) bool {
	if len(addrs) > 0 {
		a := hex.EncodeToString(l.Addr)
		ok := false
		for _, x := range addrs {
			if x == a {
				ok = true
				break
			}
		}
		if !ok {
			return false
		}
	}
	for i, set := range topics {
		if len(set) == 0 {
			continue
		}
		if i >= len(l.Topics) {
			return false
		}
		t := hex.EncodeToString(l.Topics[i])
		ok := false
		for _, x := range set {
			if x == t {
				ok = true
				break
			}
		}
		if !ok {
			return false
		}
	}
	return true
}

func logJSON(b *Block, tx *Tx, l *Log) string {
	var ts []string
	for _, t := range l.Topics {
		ts = append(ts, `"`+hx(t)+`"`)
	}
	return fmt.Sprintf(`{"address":"%s","topics":[%s],"data":"%s","blockNumber":"%s","transactionHash":"%s","transactionIndex":"%s","blockHash":"%s","logIndex":"%s","removed":false}`,
		hx(l.Addr), strings.Join(ts, ","), hx(l.Data), hq(b.Num), hx(tx.Hash), hq(tx.Idx), hx(b.Hash), hq(l.Idx))
}

func (n *Node) blockJSON(b *Block, full bool) json.RawMessage {
	var sb strings.Builder
	fmt.Fprintf(&sb, `{"number":"%s","hash":"%s","parentHash":"%s","timestamp":"%s","logsBloom":"0x00","gasLimit":"0x1c9c380","gasUsed":"0x0","miner":"0x0000000000000000000000000000000000000000","transactions":[`,
		hq(b.Num), hx(b.Hash), hx(b.Parent), hq(b.Time))
	for ti := range b.Txs {
		tx := &b.Txs[ti]
		if ti > 0 {
			sb.WriteString(",")
		}
		if !full {
			sb.WriteString(`"` + hx(tx.Hash) + `"`)
			continue
		}
		to := "null"
		if len(tx.To) > 0 {
			to = `"` + hx(tx.To) + `"`
		}
		fmt.Fprintf(&sb, `{"blockHash":"%s","blockNumber":"%s","hash":"%s","transactionIndex":"%s","type":"%s","nonce":"%s","gasPrice":"%s","gas":"%s","from":"%s","to":%s,"value":"%s","input":"%s","v":"0x1","r":"0x1","s":"0x1","chainId":"%s"`,
			hx(b.Hash), hq(b.Num), hx(tx.Hash), hq(tx.Idx), hq(uint64(tx.Type)), hq(tx.Nonce), hbig(tx.GasPrice), hq(tx.Gas), hx(tx.From), to, hbig(tx.Value), hx(tx.Input), hq(n.ChainID))
		if tx.Type >= 2 {
			fmt.Fprintf(&sb, `,"maxPriorityFeePerGas":"%s","maxFeePerGas":"%s"`, hbig(tx.MaxPrio), hbig(tx.MaxFee))
		}
		sb.WriteString("}")
	}
	sb.WriteString("]}")
	return json.RawMessage(sb.String())
}

// viewLen is the number of blocks the answering replica knows.
func (n *Node) viewLen() int {
	l := len(n.canon) - n.ViewLag
	if n.ViewLag <= 0 {
		return len(n.canon)
	}
	if l < 1 {
		l = 1
	}
	if l < n.viewFloor {
		l = n.viewFloor
	}
	return l
}

// Announce records b as a head the source has announced (pushed
// announcements of a subscription).
func (n *Node) Announce(b *Block) { n.announce(b) }

func (n *Node) announce(b *Block) {
	if n.Quiet {
		return
	}
	k := fmt.Sprintf("%d/%x", b.Num, b.Hash)
	n.Announced[k] = true
	if n.AnnouncedAt == nil {
		n.AnnouncedAt = map[string][]int{}
	}
	n.AnnouncedAt[k] = append(n.AnnouncedAt[k], n.Now)
}
