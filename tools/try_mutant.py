#!/usr/bin/env python3
"""Confirm a seeded change and run the checks against it.

usage: tools/try_mutant.py <dir with patch.diff, demo/, meta.json> [--checks C01,C04] [--tier quick] [--skip-confirm] [--confirm-only]

1. scratch worktree of /repo HEAD under /tmp/mw: patch applies, builds (also -tags verif),
   the 38 baseline tests still pass, the demo FAILS with the patch and PASSES without;
2. git -C /repo apply <patch>; run the named checks; git -C /repo checkout -- .
prints one JSON summary line; removes the scratch worktree.
"""
import json, os, subprocess, sys, shutil, re

ENV = dict(os.environ, GOFLAGS="-mod=mod", GOPROXY="off", GOSUMDB="off")
# VERIF_REPO: the repository copy the checks build from (default /repo); the
# checks are run from the /verif copy this script lives in
REPO = os.environ.get("VERIF_REPO", "/repo")
VERIF = os.path.dirname(os.path.dirname(os.path.abspath(__file__)))
BASE = json.load(open("/root/.vp/BASELINE.json"))["stable_pass"]


def sh(cmd, cwd=None, timeout=1800):
    r = subprocess.run(cmd, shell=True, cwd=cwd, env=ENV, capture_output=True, text=True, timeout=timeout)
    return r.returncode, r.stdout + r.stderr


def baseline(wt):
    rc, out = sh("go test -vet=off -count=1 -json ./... 2>/dev/null", cwd=wt)
    passed = set()
    for l in out.split("\n"):
        try:
            e = json.loads(l)
        except Exception:
            continue
        if e.get("Action") == "pass" and e.get("Test") and "/" not in e["Test"]:
            passed.add(e["Package"] + "::" + e["Test"])
    return [t for t in BASE if t not in passed]


def main():
    d = os.path.abspath(sys.argv[1])
    args = sys.argv[2:]
    checks, tier, skip = None, "quick", False
    for i, a in enumerate(args):
        if a == "--checks":
            checks = args[i + 1].split(",")
        if a == "--tier":
            tier = args[i + 1]
        if a == "--skip-confirm":
            skip = True
        if a == "--confirm-only":
            checks = []
    meta = json.load(open(os.path.join(d, "meta.json")))
    patch = os.path.join(d, "patch.diff")
    name = os.path.basename(d.rstrip("/"))
    if name == "out":
        name = os.path.basename(os.path.dirname(d))
    res = {"mutant": name, "property": meta.get("property")}
    if not skip:
        wt = f"/tmp/mw/{name}"
        sh(f"git -C /repo worktree remove --force {wt}")
        shutil.rmtree(wt, ignore_errors=True)
        os.makedirs("/tmp/mw", exist_ok=True)
        rc, out = sh(f"git -C /repo worktree add -q --detach {wt} HEAD")
        try:
            rc, out = sh(f"git apply {patch}", cwd=wt)
            if rc != 0:
                rc, out = sh(f"git apply --3way {patch}", cwd=wt)
            res["applies"] = rc == 0
            if rc != 0:
                res["apply_err"] = out[-400:]
                print(json.dumps(res)); return
            rc, out = sh("go build ./... && go build -tags verif ./...", cwd=wt)
            res["builds"] = rc == 0
            if rc != 0:
                res["build_err"] = out[-600:]
                print(json.dumps(res)); return
            res["baseline_missing_with_patch"] = baseline(wt)
            for f, dst in meta.get("demo_files", {}).items():
                p = os.path.join(wt, dst)
                os.makedirs(os.path.dirname(p), exist_ok=True)
                shutil.copy(os.path.join(d, "demo", f), p)
            cmd = meta["demo_cmd"]
            rc1, out1 = sh(cmd, cwd=wt)
            res["demo_fails_with_patch"] = rc1 != 0
            res["demo_tail_with"] = out1[-300:]
            sh(f"git apply -R {patch}", cwd=wt)
            rcx, outx = sh("git diff --stat", cwd=wt)
            rc2, out2 = sh(cmd, cwd=wt)
            res["demo_passes_without_patch"] = rc2 == 0
            if rc2 != 0:
                res["demo_tail_without"] = out2[-400:]
        finally:
            sh(f"git -C /repo worktree remove --force {wt}")
            shutil.rmtree(wt, ignore_errors=True)
    if checks is None:
        checks = [meta.get("property")]
    # run the checks against /repo with the patch applied
    rc, out = sh(f"git -C {REPO} status --porcelain")
    if out.strip():
        res["error"] = f"{REPO} not clean"
        print(json.dumps(res)); return
    rc, out = sh(f"git -C {REPO} apply {patch}")
    if rc != 0:
        rc, out = sh(f"git -C {REPO} apply --3way {patch}")
        sh(f"git -C {REPO} reset -q")
    os.makedirs(f"{VERIF}/replays", exist_ok=True)
    before = set(os.listdir(f"{VERIF}/replays"))
    try:
        res["checks"] = {}
        for c in checks:
            rc, out = sh(f"./check {c} {tier}", cwd=VERIF, timeout=7200)
            vl = [l for l in out.split("\n") if l.startswith(("VIOLATION", "violation class", "HARNESS-ERROR", "KNOWN-FINDING"))]
            res["checks"][c] = {"rc": rc, "lines": [l[:300] for l in vl[:8]]}
    finally:
        sh(f"git -C {REPO} checkout -- . && git -C {REPO} clean -fdq")
        # evidence and replay files written against the changed tree are not kept
        sh(f"git -C {VERIF} checkout -- evidence")
        keep = os.path.join("/tmp/mw/replays", name)
        os.makedirs(keep, exist_ok=True)
        for f in set(os.listdir(f"{VERIF}/replays")) - before:
            shutil.move(os.path.join(f"{VERIF}/replays", f), os.path.join(keep, f))
    print(json.dumps(res))


if __name__ == "__main__":
    main()
