#!/usr/bin/env python3
"""Run every kept seeded change against the quick check of its property (and any
extra checks named in seeded/<id>/meta.json "also_checks"); writes
seeded/RESULTS.json and prints a markdown table. /repo must be clean."""
import json, os, subprocess, sys
VERIF = os.path.dirname(os.path.dirname(os.path.abspath(__file__)))
root = os.path.join(VERIF, "seeded")
out = {}
only = sys.argv[1:]
if only and os.path.exists(os.path.join(root, "RESULTS.json")):
    out = json.load(open(os.path.join(root, "RESULTS.json")))
for m in sorted(os.listdir(root)):
    d = os.path.join(root, m)
    if not os.path.isdir(d) or (only and m not in only) or not os.path.exists(os.path.join(d, "meta.json")):
        continue
    meta = json.load(open(os.path.join(d, "meta.json")))
    checks = [meta["property"]] + meta.get("also_checks", [])
    r = subprocess.run([os.path.join(VERIF, "tools/try_mutant.py"), d, "--skip-confirm", "--checks", ",".join(checks)], capture_output=True, text=True)
    try:
        res = json.loads(r.stdout.strip().split("\n")[-1])
    except Exception:
        res = {"error": r.stdout[-300:] + r.stderr[-300:]}
    row = {"property": meta["property"], "summary": meta.get("summary", "")[:300], "needs": meta.get("needs_to_manifest", "")[:300], "first": meta.get("first_check_result"), "now": {}}
    for c, v in (res.get("checks") or {}).items():
        classes = [l.split("'")[1] for l in v["lines"] if l.startswith("violation class")]
        row["now"][c] = {"result": {0: "missed", 1: "caught", 2: "harness-error"}.get(v["rc"], str(v["rc"])), "classes": classes[:4]}
    out[m] = row
    print(m, json.dumps(row["now"]), flush=True)
    json.dump(out, open(os.path.join(root, "RESULTS.json"), "w"), indent=1)
