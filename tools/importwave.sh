#!/bin/bash
# usage: importwave.sh <letter>
L=$1
cd /verif
head=$(git -C /repo rev-parse --short HEAD)
for p in ${PROPS:-C01 C02 C03 C04 C05 C06 C07 C08 C11 C12 C14 C15 C16 C18 C20}; do d=${p}$L; mkdir -p seeded/$d; cp -r /tmp/mut/$d/out/* seeded/$d/
python3 - <<EOF
import json
p='/verif/seeded/$d/meta.json'
m=json.load(open(p))
cmd=m['demo_cmd']
for sep in ['   (','  (',' # ']:
    if sep in cmd:
        i=cmd.index(sep); m['demo_cmd_note']=cmd[i:].strip(); m['demo_cmd']=cmd[:i].strip(); break
json.dump(m,open(p,'w'),indent=1)
EOF
python3 tools/try_mutant.py seeded/$d 2>&1 | tail -1 > /tmp/conf.$d.json; python3 - <<EOF
import json
r=json.load(open('/tmp/conf.$d.json'))
m=json.load(open('/verif/seeded/$d/meta.json'))
ok = r.get('applies') and r.get('builds') and r.get('demo_fails_with_patch') and r.get('demo_passes_without_patch') and not r.get('baseline_missing_with_patch')
m['confirmed_by_me']={'repo_head':'$head','ran':'tools/try_mutant.py: scratch worktree of /repo HEAD; git apply patch.diff; go build ./... (also -tags verif); go test -vet=off -count=1 ./... keeps all 38 baseline tests; demo_cmd fails with the patch and passes after git apply -R','demo_fails_with_patch':r.get('demo_fails_with_patch'),'demo_passes_without_patch':r.get('demo_passes_without_patch'),'baseline_tests_lost':len(r.get('baseline_missing_with_patch') or [])}
ch=r.get('checks',{})
m['first_check_result']={c:{0:'missed',1:'caught',2:'exit 2'}.get(v['rc'],str(v['rc'])) for c,v in ch.items()}
json.dump(m,open('/verif/seeded/$d/meta.json','w'),indent=1)
print('$d', 'CONFIRMED' if ok else 'NOT CONFIRMED '+json.dumps({k:v for k,v in r.items() if k!='checks'})[:500], {c:(v['rc'],[x.split("'")[1] for x in v['lines'] if 'class' in x][:4]) for c,v in ch.items()})
EOF
done
for p in ${PROPS:-C01 C02 C03 C04 C05 C06 C07 C08 C11 C12 C14 C15 C16 C18 C20}; do git -C /repo worktree remove --force /tmp/mut/${p}$L/wt 2>/dev/null; done; git -C /repo worktree prune
