import json,os,subprocess,sys,glob
wave=sys.argv[1]
props={}
for l in open('/verif/properties.jsonl'):
    p=json.loads(l); props[p['id']]=p
ids=['C01','C02','C03','C04','C05','C06','C07','C08','C11','C12','C14','C15','C16','C18','C20']
tmpl=open('/tmp/mut/PROMPT.tmpl').read()
import os
hint_default=("3c. A verifier will probably run the indexing pipeline against a simulated JSON-RPC node and a simulated Postgres with random configurations, fault injection, restarts and reorgs, and compare stored rows and recorded positions with a reference model. "
"Earlier attempts concentrated on the obvious functions. This time look for a place that is inside the property's quantifier but off the beaten path: state that only matters after many steps (pruning of old position rows, caches that fill up and evict, counters that wrap, the 1000-iteration reorg loop), options that are rarely combined (several URLs per source, websocket head listener, poll durations, concurrency with a failing partition, notifications, indexes/unique lists in table definitions, adding a column to an existing table on restart), values at boundaries (block 0, empty blocks, empty arrays, zero-length data, maximum widths), error paths that are retried, context cancellation at shutdown/restart, or behaviour that depends on Go map iteration order. Prefer a file or function none of the earlier attempts touched.")
hint = open(os.environ["HINT_FILE"]).read().strip() if os.environ.get("HINT_FILE") else hint_default
for pid in ids:
    p=props[pid]
    name=pid+wave
    d=f'/tmp/mut/{name}'
    os.makedirs(d+'/out',exist_ok=True)
    wt=d+'/wt'
    if not os.path.exists(wt):
        subprocess.run(['git','-C','/repo','worktree','add','--detach',wt,'HEAD'],check=True,capture_output=True)
    earlier=[]
    for m in sorted(glob.glob(f'/verif/seeded/{pid}?/meta.json')):
        earlier.append(json.load(open(m))['summary'][:170].replace('\n',' '))
    extra='3a. Earlier attempts (do something different from all of these): '+' | '.join(f'({i+1}) {e}' for i,e in enumerate(earlier))+'\n'+hint
    t=tmpl
    for k,v in {'@WT@':wt,'@OUT@':d+'/out','@ID@':pid,'@TITLE@':p['title'],'@STATEMENT@':p['statement'],'@QUANT@':str(p['quantifier']),'@ANCHORS@':json.dumps(p['anchors']),'@EXTRA@':extra}.items():
        t=t.replace(k,v)
    t=t.replace('/tmp/mut/<yours>',d)
    open(f'/tmp/mut/prompt-{name}.txt','w').write(t)
    print(name,len(t))
