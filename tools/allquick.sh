#!/bin/sh
# run every claimed check's quick tier; one summary line each
cd /verif
for p in $(jq -r '.checks[].property_id' MANIFEST.json) "$@"; do
  out=$(./check $p quick 2>&1); rc=$?
  echo "$p rc=$rc $(echo "$out" | grep -E '^(runs=|VIOLATION|HARNESS)' | head -3 | tr '\n' ' ' | cut -c1-400)"
done
